"""C01 - proportion-type scores are finite and lie in [0, 1]."""
import numpy as np

from symx import core as S
from symx.harness import Job
from . import tasks as T

META = dict(
    explanation="Every public metric of the task table is executed symbolically through its own validation on symbolic annotations of "
                "each listed shape (incl. empty and single-element sides; equalities between elements are branches) and every returned "
                "score gets a range obligation (finite and in [0,1]; binary in {0,1}; ARI/AMI/AOR <= 1; errors/deviations >= 0; boundary "
                "deviation NaN iff a side has no boundaries) discharged by z3 per path.",
    bounds="events <=3x3 (quick) / 4x4 (thorough); notes 2x2 / 3x3 on the 1e-4 s lattice; frames <=3 / <=5; segmentations <=2+2 / 3+2 "
           "segments with label patterns, frame sizes 0.5 (0.25 thorough), span <= 2 s (<=4 frames / <=4); patterns <=2x1 / 2x2 with <=2 "
           "occurrences/notes; hierarchy 2 levels; continuity 2x2 / 3x2; Goto <=3x1 / 4x1",
    stubs=["scipy.sparse matrices as dense arrays; scipy.stats.entropy/special.comb/gammaln on concrete data only (real SciPy); "
           "interp1d(nearest) model; exp/sqrt/log as uninterpreted functions with monotonicity + anchor axioms"],
    assumptions=["outside the claim: beat.p_score, beat.information_gain, alignment.karaoke_perceptual_metric, separation (see DESIGN 6)",
                 "transcription_velocity is covered with a nondeterministic regression (any slope/intercept)"],
)


def check_kind(A, kind, v, site, nan_ok=False):
    if kind == 'unit':
        A.require(A.in01(v), site + ':finite-in-[0,1]')
    elif kind == 'binary':
        A.require(A.Or(A.eq(v, 0), A.eq(v, 1)), site + ':in-{0,1}')
    elif kind == 'le1':
        A.require(A.And(A.finite(v), A.le(v, 1)), site + ':finite-<=1')
    elif kind == 'nonneg':
        A.require(A.And(A.finite(v), A.ge(v, 0)), site + ':finite->=0')
    elif kind == 'nonneg_or_nan':
        isnan = (not S.is_sym(v)) and bool(np.isnan(v))
        if nan_ok:
            A.require(isnan, site + ':nan-when-a-side-has-no-boundaries')
        else:
            A.require(A.And(A.finite(v), A.ge(v, 0)), site + ':finite->=0')


def make_job(spec, size, prop='C01'):
    def build(ctx):
        return spec.build(ctx, size)

    def body(A, inp):
        res = spec.call(inp)
        A.require(len(res) == len(spec.outs), spec.name + ':arity')
        for (nm, kind), v in zip(spec.outs, res):
            A.observe(nm, v)
        for (nm, kind), v in zip(spec.outs, res):
            nan_ok = kind == 'nonneg_or_nan' and (0 in size or ('trim' in spec.name and min(size) <= 1))
            check_kind(A, kind, v, '%s.%s' % (spec.name, nm), nan_ok)
    return Job(prop, '%s[%s]' % (spec.name, 'x'.join(map(str, size))), build, body, funcs=spec.funcs, bounds=dict(size=size),
               exact_floats=spec.exact_floats, timeout_s=spec.timeout_s)


def jobs(tier):
    js = []
    for spec in T.SPECS:
        if 'C01' in spec.skip:
            continue
        for size in spec.sizes[tier]:
            js.append(make_job(spec, size))
    for spec in T.structure_specs(tier):
        for size in spec.sizes[tier]:
            js.append(make_job(spec, size))
    return js
