"""C02 - a perfect estimate receives the perfect score in every task."""
import math

import numpy as np

import mir_eval.util as U
import mir_eval.beat as BEAT

from symx import core as S
from symx.harness import Job
from . import common as C
from . import tasks as T

META = dict(
    explanation="Every metric of the task table is run on (x, copy of x) with x symbolic (same solver terms on both sides, separate arrays); "
                "z3 must show every agreement score equals 1 and every error/deviation equals 0 on each path, under the statement's "
                "non-degeneracy conditions (>=1 event, >=1 voiced frame with binary voicing, both tempi > 0, well-separated beats for Cemgil, "
                "frame-level degeneracy of segmentations judged after sampling).",
    bounds="annotation sizes 1..3 (quick) / 1..4 (thorough); Goto/continuity on 5 beats (thorough: continuity); segmentations <=3 segments with label patterns",
    stubs=["as C01"],
    assumptions=["Cemgil / best-level Cemgil: consecutive beats at least 4 sigma (0.16 s) apart",
                 "segment labelling scores: the expected value of a degenerate frame sequence (fewer than two frames, a single label) is the "
                 "documented convention (NCE/V = 0 for a single label) or not asserted (0/0 cases, which C01 reports)"],
)

SELF_SIZES = {1: [(1,), (2,), (3,)], 2: None}


def self_input(spec, ctx, n):
    """build (x, x) with shared terms: use the spec's builder with size (n, n) and overwrite the estimate"""
    size = (n, n) if len(spec.sizes['quick'][0]) == 2 else (n,)
    inp = spec.build(ctx, size)
    inp['est'] = T.cp(inp['ref']) if not spec.name.startswith('tempo') else (T.cp(inp['ref'][0]),)
    return inp


def make_job(spec, n, extra=None):
    def build(ctx):
        inp = self_input(spec, ctx, n)
        if extra:
            extra(ctx, inp)
        return inp

    def body(A, inp):
        res = spec.call(inp)
        for (nm, kind), v in zip(spec.outs, res):
            A.observe(nm, v)
        for (nm, kind), v, want in zip(spec.outs, res, spec.perfect):
            if want is None:
                continue
            A.require(A.eq(v, want), '%s.%s(x,x)==%s' % (spec.name, nm, want))
    return Job('C02', '%s[self,%d]' % (spec.name, n), build, body, funcs=spec.funcs, bounds=dict(items=n), exact_floats=spec.exact_floats,
               timeout_s=spec.timeout_s)


def separated(ctx, inp):
    b = inp['ref'][0]
    for i in range(len(b) - 1):
        ctx.assume(b[i + 1] - b[i] >= 0.16)


def tempo_nondegen(ctx, inp):
    ctx.assume(inp['ref'][0][0] > 0)
    ctx.assume(inp['ref'][0][1] > 0)


def melody_jobs(tier):
    """binary voicing with >= 1 voiced frame, voiced frames have a positive pitch"""
    js = []
    for n in ((1, 2, 3) if tier == 'quick' else (1, 2, 3, 4)):
        def build(ctx, n=n):
            v = [ctx.integer('v%d' % i) for i in range(n)]
            c = [ctx.real('c%d' % i) for i in range(n)]
            some = False
            for i in range(n):
                ctx.assume(S._lor(v[i] == 0, v[i] == 1))
                ctx.assume(c[i] >= 0)
                ctx.assume(S._lor(v[i] == 0, c[i] > 0))
                some = S._lor(some, v[i] == 1)
            ctx.assume(some)
            tol = T.posreal(ctx, 'cent_tolerance', 600)
            return dict(v=S.array(v).astype(float), c=S.array(c), tol=tol)

        def body(A, inp, n=n):
            v, c, tol = inp['v'], inp['c'], inp['tol']
            v = np.asarray(v, dtype=float) if not A.sym else v
            vr, vfa = T.MEL.voicing_measures(v, v.copy())
            rpa = T.MEL.raw_pitch_accuracy(v, c, v.copy(), c.copy(), cent_tolerance=tol)
            rca = T.MEL.raw_chroma_accuracy(v, c, v.copy(), c.copy(), cent_tolerance=tol)
            oa = T.MEL.overall_accuracy(v, c, v.copy(), c.copy(), cent_tolerance=tol)
            for nm, val in (('VR', vr), ('VFA', vfa), ('RPA', rpa), ('RCA', rca), ('OA', oa)):
                A.observe(nm, val)
            A.require(A.eq(vr, 1), 'melody.voicing_recall(x,x)==1')
            A.require(A.eq(vfa, 0), 'melody.voicing_false_alarm(x,x)==0')
            A.require(A.eq(rpa, 1), 'melody.raw_pitch_accuracy(x,x)==1')
            A.require(A.eq(rca, 1), 'melody.raw_chroma_accuracy(x,x)==1')
            A.require(A.eq(oa, 1), 'melody.overall_accuracy(x,x)==1')
        js.append(Job('C02', 'melody.frame_measures[self,%d]' % n, build, body,
                      funcs=['melody.voicing_measures', 'melody.raw_pitch_accuracy', 'melody.raw_chroma_accuracy', 'melody.overall_accuracy'],
                      bounds=dict(frames=n)))
    return js


def melody_reward_jobs(tier):
    """a reference with a fractional pitch reward (continuous reference voicing in (0, 1], Bittner & Bosch) against the estimate
    that an exact copy of its frequencies yields (binary voicing): voicing recall 1, false alarm 0, raw pitch and chroma accuracy 1.
    (Overall accuracy is not 1 by definition when the reward is fractional and is not asserted.)"""
    js = []
    for n in ((1, 2) if tier == 'quick' else (1, 2, 3)):
        def build(ctx, n=n):
            v = [ctx.real('v%d' % i) for i in range(n)]
            c = [ctx.real('c%d' % i) for i in range(n)]
            some = False
            for i in range(n):
                ctx.assume(v[i] >= 0)
                ctx.assume(v[i] <= 1)
                ctx.assume(c[i] >= 0)
                ctx.assume(S._lor(v[i] == 0, c[i] > 0))
                some = S._lor(some, v[i] > 0)
            ctx.assume(some)
            tol = T.posreal(ctx, 'cent_tolerance', 600)
            return dict(v=S.array(v), c=S.array(c), tol=tol)

        def body(A, inp, n=n):
            v, c, tol = inp['v'], inp['c'], inp['tol']
            ev = (v > 0).astype(float)
            vr, vfa = T.MEL.voicing_measures(v, ev)
            rpa = T.MEL.raw_pitch_accuracy(v, c, ev, c.copy(), cent_tolerance=tol)
            rca = T.MEL.raw_chroma_accuracy(v, c, ev.copy(), c.copy(), cent_tolerance=tol)
            for nm, val in (('VR', vr), ('VFA', vfa), ('RPA', rpa), ('RCA', rca)):
                A.observe(nm, val)
            A.require(A.eq(vr, 1), 'melody.voicing_recall(x,x)==1 [fractional reward]')
            A.require(A.eq(vfa, 0), 'melody.voicing_false_alarm(x,x)==0 [fractional reward]')
            A.require(A.eq(rpa, 1), 'melody.raw_pitch_accuracy(x,x)==1 [fractional reward]')
            A.require(A.eq(rca, 1), 'melody.raw_chroma_accuracy(x,x)==1 [fractional reward]')
        js.append(Job('C02', 'melody.frame_measures[self,%d frames,fractional reference reward]' % n, build, body,
                      funcs=['melody.voicing_measures', 'melody.raw_pitch_accuracy', 'melody.raw_chroma_accuracy'], bounds=dict(frames=n), exact_floats=False))
    return js


def structure_job(spec, size):
    n = size[0]

    def build(ctx):
        inp = spec.build(ctx, (n, n))
        # same segmentation, same labels up to case (labels are compared case-insensitively)
        inp['est'] = (inp['ref'][0].copy(), [x.upper() for x in inp['ref'][1]])
        return inp

    def body(A, inp):
        res = spec.call(inp)
        for (nm, kind), v in zip(spec.outs, res):
            A.observe(nm, v)
        # frame-level degeneracy, judged after sampling (same sampler as the metric: a precondition, not the oracle)
        frames = U.intervals_to_samples(inp['ref'][0], list(inp['ref'][1]), sample_size=inp['kw']['frame_size'])[1]
        nfr = len(frames)
        nlab = len(set(frames))
        shared = nfr - nlab > 0          # some label occurs on two frames
        base = spec.base
        if base == 'segment.pairwise':
            if shared:
                for i in range(3):
                    A.require(A.eq(res[i], 1), '%s.%s(x,x)==1' % (base, spec.outs[i][0]))
        elif base == 'segment.rand_index':
            if nfr >= 2:
                A.require(A.eq(res[0], 1), base + '(x,x)==1')
        elif base == 'segment.ari':
            if nfr >= 1:
                A.require(A.eq(res[0], 1), base + '(x,x)==1')
        elif base == 'segment.mutual_information':
            if nfr >= 2 and 1 < nlab < nfr:
                A.require(A.eq(res[1], 1), base + '.AMI(x,x)==1')
            if nfr >= 1 and nlab >= 2:
                A.require(A.eq(res[2], 1), base + '.NMI(x,x)==1')
            if nlab == 1:
                A.require(A.And(A.eq(res[1], 1), A.eq(res[2], 1)), base + '.single-label(x,x)==1')
        else:   # nce / vmeasure: 1 with >= 2 labels, 0 by documented convention with a single label
            if nfr >= 1:
                want = 1 if nlab >= 2 else 0
                for i in range(3):
                    A.require(A.eq(res[i], want), '%s.%s(x,x)==%d' % (base, spec.outs[i][0], want))
        if nfr == 0:
            A.reach(base + ':no-frames')
    return Job('C02', '%s[self]' % spec.name, build, body, funcs=spec.funcs, bounds=dict(segments=n), exact_floats=False, timeout_s=spec.timeout_s)


def goto_job(n=5):
    def build(ctx):
        b = C.events(ctx, 'b', n, strict=True)
        return dict(b=b)

    def body(A, inp):
        b = inp['b']
        g = BEAT.goto(b, b.copy())
        A.observe('goto', g)
        A.require(A.eq(g, 1), 'beat.goto(x,x)==1')
    return Job('C02', 'beat.goto[self,%d]' % n, build, body, funcs=['beat.goto'], bounds=dict(beats=n))


def continuity_job(n=5):
    def build(ctx):
        b = C.events(ctx, 'b', n, strict=True)
        return dict(b=b)

    def body(A, inp):
        b = inp['b']
        res = BEAT.continuity(b, b.copy())
        for nm, v in zip(('CMLc', 'CMLt', 'AMLc', 'AMLt'), res):
            A.observe(nm, v)
            A.require(A.eq(v, 1), 'beat.continuity.%s(x,x)==1' % nm)
    return Job('C02', 'beat.continuity[self,%d]' % n, build, body, funcs=['beat.continuity'], bounds=dict(beats=n), timeout_s=3000, solver_timeout_ms=180000, max_decisions=2000000)


def velocity_job(n, offset_ratio='default'):
    """transcription with velocities: the rescaling regression is np.linalg.lstsq; here its solution is constrained by the
    normal equations (Job(lstsq_exact=True)), which is what makes the self-comparison decidable: an exact fit exists"""
    spec = T.by_name('transcription_velocity.precision_recall_f1_overlap')

    def build(ctx):
        inp = T.b_notes(velocity=True, tol_kw=('velocity_tolerance',), offset_ratio=offset_ratio)(ctx, (n, n))
        inp['est'] = T.cp(inp['ref'])
        return inp

    def body(A, inp):
        res = spec.call(inp)
        for (nm, kind), v in zip(spec.outs, res):
            A.observe(nm, v)
            A.require(A.eq(v, 1), 'transcription_velocity.%s(x,x)==1' % nm)
    return Job('C02', 'transcription_velocity.precision_recall_f1_overlap[self,%d,offset_ratio=%s]' % (n, offset_ratio), build, body, funcs=spec.funcs + ['transcription.match_notes'],
               bounds=dict(items=n), exact_floats=False, timeout_s=1500, lstsq_exact=True)


def velocity_unison_job():
    """three overlapping notes of one pitch (concrete times: the maximum matching of the annotation with its copy is not
    unique); velocities (0, x, 0) with x symbolic"""
    spec = T.by_name('transcription_velocity.precision_recall_f1_overlap')

    def build(ctx):
        iv = S._wrap(np.array([[0.02, 0.27], [0.01, 0.21], [0.02, 0.23]]))
        p = S._wrap(np.array([441.0, 441.0, 441.0]))
        x = ctx.real('velocity1')
        ctx.assume(x >= 0)
        ctx.assume(x <= 127)
        v = S.array([0.0, x, 0.0])
        return dict(ref=(iv, p, v), est=(iv.copy(), p.copy(), v.copy()), kw={})

    def body(A, inp):
        res = spec.call(inp)
        for (nm, kind), v in zip(spec.outs, res):
            A.observe(nm, v)
            A.require(A.eq(v, 1), 'transcription_velocity.%s(x,x)==1' % nm)
    return Job('C02', 'transcription_velocity.precision_recall_f1_overlap[self,3 overlapping notes of one pitch]', build, body,
               funcs=spec.funcs + ['transcription.match_notes'], bounds=dict(items=3, times='concrete'), exact_floats=False, timeout_s=600, lstsq_exact=True)


def transcription_unison_job():
    """three notes of one pitch starting within 10 ms (concrete onsets and pitches: the maximum matching of the annotation
    with its copy is not unique), symbolic offsets"""
    spec = T.by_name('transcription.precision_recall_f1_overlap')

    def build(ctx):
        on = [0.02, 0.01, 0.02]
        rows = []
        for i in range(3):
            b = ctx.gridnum('off%d' % i, 10000)
            ctx.assume(b >= 0.2)
            ctx.assume(b <= 0.3)
            rows.append([on[i], b])
        iv = S.array(rows)
        p = S._wrap(np.array([441.0, 441.0, 441.0]))
        return dict(ref=(iv, p), est=(iv.copy(), p.copy()), kw={})

    def body(A, inp):
        res = spec.call(inp)
        for (nm, kind), v in zip(spec.outs, res):
            A.observe(nm, v)
            A.require(A.eq(v, 1), '%s.%s(x,x)==1' % (spec.name, nm))
    return Job('C02', 'transcription.precision_recall_f1_overlap[self,3 overlapping notes of one pitch]', build, body,
               funcs=spec.funcs, bounds=dict(items=3, onsets='concrete'), exact_floats=False, timeout_s=600)


def hierarchy_job(kind, counts, window=None, transitive=False):
    """T-/L-measure of a hierarchy (levels with independent boundaries, so not necessarily nested) against its own copy: 1
    whenever the definition is non-degenerate (some query frame has a reference triple), 0 by convention otherwise"""
    import mir_eval.hierarchy as HIER
    from . import c17 as C17
    fs = 0.5
    b = T.b_hier_counts(counts, counts, fs, 2.0, labels='repeat' if kind == 'lmeasure' else False,
                        window='none' if window is None else window, transitive=transitive)

    def build(ctx):
        inp = b(ctx)
        inp['est'] = T.cp(inp['ref'])
        return inp

    def body(A, inp):
        rh = inp['ref'][0]
        nfr = C17.n_frames(A, rh, fs)
        seg = C17.frame_maps(A, rh, fs, nfr)
        if kind == 'lmeasure':
            res = HIER.lmeasure(rh, inp['ref'][1], inp['est'][0], inp['est'][1], **inp['kw'])
            want = C17.brute_lmeasure(seg, inp['ref'][1], seg, inp['ref'][1], nfr)
        else:
            res = HIER.tmeasure(rh, inp['est'][0], **inp['kw'])
            wf = None if window is None else int(math.floor(window / fs + 1e-9))
            want = C17.brute_tmeasure(seg, seg, nfr, transitive, wf)
        nondegenerate = want[2] == 1.0
        A.observe('nondegenerate', nondegenerate)
        for nm, v in zip(('P', 'R', 'F'), res):
            A.observe(nm, v)
            A.require(A.eq(v, 1 if nondegenerate else 0), 'hierarchy.%s.%s(x,x)==%s' % (kind, nm, '1' if nondegenerate else '0 (no frame triple)'))
    return Job('C02', 'hierarchy.%s[self,levels %s,window=%s,transitive=%s]' % (kind, counts, window, transitive), build, body,
               funcs=['hierarchy.' + kind, 'hierarchy._gauc', 'hierarchy._lca' if kind == 'tmeasure' else 'hierarchy._meet'], bounds=dict(levels=counts, frame_size=fs),
               exact_floats=False, timeout_s=1500)


def multipitch_chord_job(nf, frames=1):
    """multipitch self-comparison with nf pitches per frame, listed in any order (the pitches of a frame are a set)"""
    spec = T.by_name('multipitch.metrics')

    def build(ctx):
        inp = T.b_multipitch(nf)(ctx, (frames, frames))
        inp['est'] = T.cp(inp['ref'])
        return inp

    def body(A, inp):
        res = spec.call(inp)
        for (nm, kind), v, want in zip(spec.outs, res, spec.perfect):
            A.observe(nm, v)
            A.require(A.eq(v, want), '%s.%s(x,x)==%s' % (spec.name, nm, want))
    return Job('C02', 'multipitch.metrics[self,%d frame(s) of %d pitches in any order]' % (frames, nf), build, body, funcs=spec.funcs,
               bounds=dict(frames=frames, pitches_per_frame=nf), exact_floats=False, timeout_s=900)


def jobs(tier):
    q = tier == 'quick'
    js = []
    ns = (1, 2, 3) if q else (1, 2, 3, 4)
    for spec in T.SPECS:
        if not spec.perfect or 'C02' in spec.skip:
            continue
        if spec.name.startswith('melody'):
            continue
        for n in ns:
            extra = None
            if spec.name == 'beat.cemgil':
                extra = separated
                if n > 3:
                    continue
            if spec.name.startswith('tempo'):
                extra = tempo_nondegen
                if n > 1:
                    continue
            if spec.name.startswith('key') and n > 1:
                continue
            if spec.name.startswith('alignment.percentage_correct_segments') and n < 2 and 'duration' not in spec.name:
                continue
            if spec.name.startswith('pattern') and n > 2:
                continue
            if spec.name.startswith('multipitch') and n > 2:
                continue
            if spec.name.startswith('transcription') and n > (2 if q else 3):
                continue
            if spec.name.startswith('chord') and n > 3:
                continue
            js.append(make_job(spec, n, extra))
    # tempo / key (sizes are not item counts)
    tp = T.by_name('tempo.detection')
    tp.perfect = [1, 1, 1]
    js.append(make_job(tp, 2, tempo_nondegen))
    ky = T.by_name('key.weighted_score')
    ky.perfect = [1]
    js.append(make_job(ky, 10 if q else len(T.KEY_STRINGS)))
    js += melody_jobs(tier)
    js += melody_reward_jobs(tier)
    for n in (1, 2):
        js.append(velocity_job(n))
    js.append(velocity_job(1, None))
    js.append(multipitch_chord_job(2))
    if not q:
        js.append(multipitch_chord_job(3))
        js.append(multipitch_chord_job(2, frames=2))
    js.append(velocity_unison_job())
    js.append(transcription_unison_job())
    for counts in ([(2, 2), (1, 2)] if q else [(2, 2), (1, 2), (1, 3), (2, 3), (1, 2, 2)]):
        js.append(hierarchy_job('lmeasure', counts))
        js.append(hierarchy_job('tmeasure', counts))
    js.append(hierarchy_job('tmeasure', (1, 2), window=1.0, transitive=True))
    js.append(goto_job(5))
    if not q:
        js.append(goto_job(6))
        js.append(continuity_job(5))
    seen = set()
    for spec in T.structure_specs(tier):
        if 'empty' in spec.name:
            continue
        size = spec.sizes[tier][0]
        key = (spec.name.split('|')[0], spec.name.split('fs=')[1], size[0])
        if key in seen:
            continue
        seen.add(key)
        js.append(structure_job(spec, size))
    return js
