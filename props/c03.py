"""C03 - evaluate() is exactly the documented bundle of the individual metrics."""
import inspect

import numpy as np

import mir_eval.util as U
import mir_eval.beat as BEAT
import mir_eval.onset as ONSET
import mir_eval.segment as SEG
import mir_eval.chord as CHORD
import mir_eval.melody as MEL
import mir_eval.multipitch as MP
import mir_eval.transcription as TR
import mir_eval.transcription_velocity as TV
import mir_eval.tempo as TEMPO
import mir_eval.key as KEY
import mir_eval.pattern as PAT
import mir_eval.hierarchy as HIER
import mir_eval.alignment as ALIGN

from symx import core as S
from symx.harness import Job
from . import common as C
from . import tasks as T
from . import evals as E

META = dict(
    explanation="Two modes per task.  ROUTING: every public metric function of the module is replaced by an uninterpreted stub with the original "
                "signature that records (name, arguments, keywords); evaluate()'s own body, its pre-processing and filter_kwargs are the code under "
                "analysis and each entry must equal the record of the documented direct call (documented key list, documented forced parameter, "
                "user keywords passed to exactly the functions that accept them, unrelated keywords dropped) - z3 compares the argument cells.  "
                "SEMANTIC: the real metrics on both sides, each entry compared with the direct call on the documented pre-processing; every value "
                "must be a real scalar, also for empty annotations.",
    bounds="routing: <=2+2 items (quick) / 3+3; semantic: <=2+1 / 2+2; all user keywords symbolic at once in routing mode",
    stubs=["routing mode: uninterpreted records for all metric functions (same signatures, so filter_kwargs treats them like the originals)",
           "semantic mode: beat.p_score / information_gain / alignment.karaoke_perceptual_metric constant stubs"],
    assumptions=["documented key lists and forced parameters are transcribed from the module docstrings / README into props/evals.py and this file"],
)


# ---------------------------------------------------------------- uninterpreted records

class Rec:
    def __init__(self, name, args, index=None):
        self.name = name
        self.args = args          # OrderedDict param -> value (bound arguments incl. defaults)
        self.index = index

    def __repr__(self):
        return "<%s%s>" % (self.name, '' if self.index is None else '[%d]' % self.index)

    def __concretize__(self, model):
        return repr(self)

    # records are opaque: min()/max() over two records (chord.evaluate's "seg") keeps the first one
    def __lt__(self, o):
        return False

    def __gt__(self, o):
        return False


def make_stub(fn, arity, log):
    sig = inspect.signature(fn)
    name = fn.__name__
    params = list(sig.parameters.values())
    ns = {'__rec__': None}
    parts = []
    for i, p in enumerate(params):
        if p.kind == p.VAR_KEYWORD:
            parts.append('**' + p.name)
        elif p.kind == p.VAR_POSITIONAL:
            parts.append('*' + p.name)
        elif p.default is not p.empty:
            ns['__d%d' % i] = p.default
            parts.append('%s=__d%d' % (p.name, i))
        else:
            parts.append(p.name)

    def rec(bound):
        log.append(name)
        if arity == 1:
            return Rec(name, bound)
        return tuple(Rec(name, bound, i) for i in range(arity))
    ns['__rec__'] = rec
    src = "def %s(%s):\n    return __rec__(dict(locals()))\n" % (name, ', '.join(parts))
    exec(src, ns)
    return ns[name]


def same_value(A, a, b):
    """structural equality of recorded argument values; symbolic cells via the solver"""
    if isinstance(a, Rec) or isinstance(b, Rec):
        return isinstance(a, Rec) and isinstance(b, Rec) and same_rec(A, a, b)
    if isinstance(a, np.ndarray) or isinstance(b, np.ndarray):
        if not (isinstance(a, np.ndarray) and isinstance(b, np.ndarray)) or a.shape != b.shape:
            return False
        ok = True
        for x, y in zip(np.asarray(a, dtype=object).reshape(-1), np.asarray(b, dtype=object).reshape(-1)):
            ok = A.And(ok, same_value(A, x, y))
        return ok
    if isinstance(a, (list, tuple)) or isinstance(b, (list, tuple)):
        if not (isinstance(a, (list, tuple)) and isinstance(b, (list, tuple))) or len(a) != len(b):
            return False
        ok = True
        for x, y in zip(a, b):
            ok = A.And(ok, same_value(A, x, y))
        return ok
    if isinstance(a, dict) or isinstance(b, dict):
        if not (isinstance(a, dict) and isinstance(b, dict)) or sorted(a) != sorted(b):
            return False
        ok = True
        for k in a:
            ok = A.And(ok, same_value(A, a[k], b[k]))
        return ok
    if S.is_sym(a) or S.is_sym(b):
        return A.xeq(a, b)
    if a is None or b is None or isinstance(a, (str, bool)) or isinstance(b, (str, bool)):
        return a is b or (type(a) == type(b) and a == b)
    try:
        if a != a and b != b:
            return True
    except Exception:
        pass
    return bool(a == b)


def same_rec(A, a, b):
    if a.name != b.name or a.index != b.index:
        return False
    return same_value(A, a.args, b.args)


def is_scalar(v):
    if S.is_sym(v):
        return True
    if isinstance(v, (bool, int, float, np.bool_, np.integer, np.floating)):
        return True
    return False


# ---------------------------------------------------------------- task descriptions
# entries: (keys, function, lambda pre: positional args, forced keywords)

def _beat_pre(args, kw):
    ref, est = args
    mb = kw.get('min_beat_time', 5.0)
    return dict(ref=BEAT.trim_beats(ref, mb), est=BEAT.trim_beats(est, mb))


def _seg_pre(args, kw):
    ri, rl, ei, el = args
    ri, rl = U.adjust_intervals(ri, labels=rl, t_min=0.0)
    ei, el = U.adjust_intervals(ei, labels=el, t_min=0.0, t_max=ri.max())
    return dict(ri=ri, rl=rl, ei=ei, el=el)


def _hier_pre(args, kw):
    rh, rl, eh, el = args
    _, t_end = HIER._hierarchy_bounds(rh)
    rh, rl = HIER._align_intervals(rh, rl, t_min=0.0, t_max=None)
    eh, el = HIER._align_intervals(eh, el, t_min=0.0, t_max=t_end)
    return dict(rh=rh, rl=rl, eh=eh, el=el)


def _id4(names):
    def pre(args, kw):
        return dict(zip(names, args))
    return pre


def _mel_pre(args, kw):
    k = {x: kw[x] for x in ('base_frequency', 'hop', 'kind') if x in kw}
    rv, rc, ev, ec = MEL.to_cent_voicing(*args, **k)
    return dict(rv=rv, rc=rc, ev=ev, ec=ec)


TASKS = {
    'beat': dict(mod=BEAT, pre=_beat_pre, entries=[
        (['F-measure'], 'f_measure', lambda p: (p['ref'], p['est']), {}),
        (['Cemgil', 'Cemgil Best Metric Level'], 'cemgil', lambda p: (p['ref'], p['est']), {}),
        (['Goto'], 'goto', lambda p: (p['ref'], p['est']), {}),
        (['P-score'], 'p_score', lambda p: (p['ref'], p['est']), {}),
        (['Correct Metric Level Continuous', 'Correct Metric Level Total', 'Any Metric Level Continuous', 'Any Metric Level Total'], 'continuity',
         lambda p: (p['ref'], p['est']), {}),
        (['Information gain'], 'information_gain', lambda p: (p['ref'], p['est']), {})],
        userkw=['min_beat_time', 'f_measure_threshold', 'cemgil_sigma', 'goto_threshold', 'goto_mu', 'goto_sigma', 'p_score_threshold',
                'continuity_phase_threshold', 'continuity_period_threshold', 'bins']),
    'onset': dict(mod=ONSET, pre=_id4(['ref', 'est']), entries=[(['F-measure', 'Precision', 'Recall'], 'f_measure', lambda p: (p['ref'], p['est']), {})],
                  userkw=['window']),
    'segment': dict(mod=SEG, pre=_seg_pre, entries=[
        (['Precision@0.5', 'Recall@0.5', 'F-measure@0.5'], 'detection', lambda p: (p['ri'], p['ei']), {'window': 0.5}),
        (['Precision@3.0', 'Recall@3.0', 'F-measure@3.0'], 'detection', lambda p: (p['ri'], p['ei']), {'window': 3.0}),
        (['Ref-to-est deviation', 'Est-to-ref deviation'], 'deviation', lambda p: (p['ri'], p['ei']), {}),
        (['Pairwise Precision', 'Pairwise Recall', 'Pairwise F-measure'], 'pairwise', lambda p: (p['ri'], p['rl'], p['ei'], p['el']), {}),
        (['Rand Index'], 'rand_index', lambda p: (p['ri'], p['rl'], p['ei'], p['el']), {}),
        (['Adjusted Rand Index'], 'ari', lambda p: (p['ri'], p['rl'], p['ei'], p['el']), {}),
        (['Mutual Information', 'Adjusted Mutual Information', 'Normalized Mutual Information'], 'mutual_information',
         lambda p: (p['ri'], p['rl'], p['ei'], p['el']), {}),
        (['NCE Over', 'NCE Under', 'NCE F-measure'], 'nce', lambda p: (p['ri'], p['rl'], p['ei'], p['el']), {}),
        (['V Precision', 'V Recall', 'V-measure'], 'vmeasure', lambda p: (p['ri'], p['rl'], p['ei'], p['el']), {})],
        userkw=['beta', 'trim', 'frame_size', 'marginal']),
    'melody': dict(mod=MEL, pre=_mel_pre, entries=[
        (['Voicing Recall'], 'voicing_recall', lambda p: (p['rv'], p['ev']), {}),
        (['Voicing False Alarm'], 'voicing_false_alarm', lambda p: (p['rv'], p['ev']), {}),
        (['Raw Pitch Accuracy'], 'raw_pitch_accuracy', lambda p: (p['rv'], p['rc'], p['ev'], p['ec']), {}),
        (['Raw Chroma Accuracy'], 'raw_chroma_accuracy', lambda p: (p['rv'], p['rc'], p['ev'], p['ec']), {}),
        (['Overall Accuracy'], 'overall_accuracy', lambda p: (p['rv'], p['rc'], p['ev'], p['ec']), {})],
        userkw=['cent_tolerance']),
    'multipitch': dict(mod=MP, pre=_id4(['rt', 'rf', 'et', 'ef']), entries=[(E.KEYS['multipitch'], 'metrics', lambda p: (p['rt'], p['rf'], p['et'], p['ef']), {})],
                       userkw=['window']),
    'transcription': dict(mod=TR, pre=_id4(['ri', 'rp', 'ei', 'ep']), entries=[
        (['Precision', 'Recall', 'F-measure', 'Average_Overlap_Ratio'], 'precision_recall_f1_overlap', lambda p: (p['ri'], p['rp'], p['ei'], p['ep']), {'offset_ratio': 'USER|0.2'}),
        (['Precision_no_offset', 'Recall_no_offset', 'F-measure_no_offset', 'Average_Overlap_Ratio_no_offset'], 'precision_recall_f1_overlap',
         lambda p: (p['ri'], p['rp'], p['ei'], p['ep']), {'offset_ratio': None}),
        (['Onset_Precision', 'Onset_Recall', 'Onset_F-measure'], 'onset_precision_recall_f1', lambda p: (p['ri'], p['ei']), {'offset_ratio': None}),
        (['Offset_Precision', 'Offset_Recall', 'Offset_F-measure'], 'offset_precision_recall_f1', lambda p: (p['ri'], p['ei']), {'offset_ratio': 'USER|0.2'})],
        userkw=['onset_tolerance', 'pitch_tolerance', 'offset_min_tolerance', 'strict', 'beta', 'offset_ratio']),
    'transcription_velocity': dict(mod=TV, pre=_id4(['ri', 'rp', 'rv', 'ei', 'ep', 'ev']), entries=[
        (['Precision', 'Recall', 'F-measure', 'Average_Overlap_Ratio'], 'precision_recall_f1_overlap',
         lambda p: (p['ri'], p['rp'], p['rv'], p['ei'], p['ep'], p['ev']), {'offset_ratio': 'USER|0.2'}),
        (['Precision_no_offset', 'Recall_no_offset', 'F-measure_no_offset', 'Average_Overlap_Ratio_no_offset'], 'precision_recall_f1_overlap',
         lambda p: (p['ri'], p['rp'], p['rv'], p['ei'], p['ep'], p['ev']), {'offset_ratio': None})],
        userkw=['onset_tolerance', 'pitch_tolerance', 'offset_min_tolerance', 'strict', 'velocity_tolerance', 'beta', 'offset_ratio']),
    'tempo': dict(mod=TEMPO, pre=_id4(['rt', 'w', 'et']), entries=[(['P-score', 'One-correct', 'Both-correct'], 'detection', lambda p: (p['rt'], p['w'], p['et']), {})],
                  userkw=['tol']),
    'pattern': dict(mod=PAT, pre=_id4(['ref', 'est']), entries=[
        (['F', 'P', 'R'], 'standard_FPR', lambda p: (p['ref'], p['est']), {}),
        (['F_est', 'P_est', 'R_est'], 'establishment_FPR', lambda p: (p['ref'], p['est']), {}),
        (['F_occ.5', 'P_occ.5', 'R_occ.5'], 'occurrence_FPR', lambda p: (p['ref'], p['est']), {'thres': 0.5}),
        (['F_occ.75', 'P_occ.75', 'R_occ.75'], 'occurrence_FPR', lambda p: (p['ref'], p['est']), {'thres': 0.75}),
        (['F_3', 'P_3', 'R_3'], 'three_layer_FPR', lambda p: (p['ref'], p['est']), {}),
        (['FFP'], 'first_n_three_layer_P', lambda p: (p['ref'], p['est']), {'n': 'USER|5'}),
        (['FFTP_est'], 'first_n_target_proportion_R', lambda p: (p['ref'], p['est']), {'n': 'USER|5'})],
        userkw=['tol', 'similarity_metric', 'n']),
    'hierarchy': dict(mod=HIER, pre=_hier_pre, entries=[
        (['T-Precision reduced', 'T-Recall reduced', 'T-Measure reduced'], 'tmeasure', lambda p: (p['rh'], p['eh']), {'transitive': False}),
        (['T-Precision full', 'T-Recall full', 'T-Measure full'], 'tmeasure', lambda p: (p['rh'], p['eh']), {'transitive': True}),
        (['L-Precision', 'L-Recall', 'L-Measure'], 'lmeasure', lambda p: (p['rh'], p['rl'], p['eh'], p['el']), {})],
        userkw=['window', 'frame_size', 'beta']),
    'alignment': dict(mod=ALIGN, pre=_id4(['ref', 'est']), entries=[
        (['pc'], 'percentage_correct', lambda p: (p['ref'], p['est']), {}),
        (['mae', 'aae'], 'absolute_error', lambda p: (p['ref'], p['est']), 'NOKW'),
        (['pcs'], 'percentage_correct_segments', lambda p: (p['ref'], p['est']), {}),
        (['perceptual'], 'karaoke_perceptual_metric', lambda p: (p['ref'], p['est']), 'NOKW')],
        userkw=['window', 'duration']),
}


def _arity(keys):
    return len(keys)


def routing_job(task, size, with_kw):
    desc = TASKS[task]
    mod = desc['mod']
    ev = E.by_task(task) if task != 'transcription_velocity' else E.Ev('transcription_velocity', TV.evaluate, E._b_velocity, {}, ['transcription_velocity.evaluate'])

    def build(ctx):
        inp = ev.build(ctx, size)
        kw = {}
        if with_kw:
            for k in desc['userkw']:
                kw[k] = ctx.real('kw_' + k)
            kw['bogus_keyword'] = ctx.real('kw_bogus')
        inp['userkw'] = kw
        return inp

    def body(A, inp):
        log = []
        fnames = sorted(set(e[1] for e in desc['entries']))
        arity = {}
        for keys, fname, _, _ in desc['entries']:
            arity[fname] = len(keys)
        stubs = [(mod, fn, make_stub(getattr(mod, fn), arity[fn], log)) for fn in fnames]
        userkw = dict(inp['userkw'])
        args = tuple(T.cp(a) for a in inp['args'])
        evkw = dict(userkw)
        if task in ('segment', 'hierarchy') and 'frame_size' not in evkw:
            pass
        fn_eval = getattr(mod, 'evaluate')
        with E.stubbed(stubs):
            scores = fn_eval(*args, **evkw)
            # documented pre-processing (real helpers, user keywords that the pre-processing accepts)
            pre = desc['pre'](tuple(T.cp(a) for a in inp['args']), userkw)
            A.require(list(scores.keys()) == E.KEYS[task], '%s.evaluate:documented-key-list' % task, got=list(scores.keys()))
            for keys, fname, argf, forced in desc['entries']:
                real = inspect.signature(getattr(mod, fname).__wrapped__ if hasattr(getattr(mod, fname), '__wrapped__') else getattr(mod, fname))
                stub = getattr(mod, fname)
                params = inspect.signature(stub).parameters
                has_var_kw = any(p.kind == p.VAR_KEYWORD for p in params.values())
                kw = {}
                if forced != 'NOKW':
                    for k, v in userkw.items():
                        if has_var_kw or k in params:
                            kw[k] = v
                    for k, v in forced.items():
                        if isinstance(v, str) and v.startswith('USER|'):
                            v = userkw.get(k, float(v.split('|')[1]))
                        if has_var_kw or k in params:
                            kw[k] = v
                want = stub(*argf(pre), **kw)
                want = want if isinstance(want, tuple) else (want,)
                for k, w in zip(keys, want):
                    got = scores.get(k)
                    A.require(isinstance(got, Rec) and same_rec(A, got, w), '%s.evaluate[%s]==%s(documented arguments)' % (task, k, fname),
                              got=repr(got))
        A.observe('calls', sorted(log))
    return Job('C03', 'routing:%s.evaluate[%s,%s]' % (task, 'x'.join(map(str, size)), 'user-kw' if with_kw else 'defaults'), build, body,
               funcs=['%s.evaluate' % task, 'util.filter_kwargs', 'util.has_kwargs'], bounds=dict(size=size), exact_floats=False, timeout_s=900)


def chord_routing_job(size):
    ev = E.by_task('chord')
    RULES = ['thirds', 'thirds_inv', 'triads', 'triads_inv', 'tetrads', 'tetrads_inv', 'root', 'mirex', 'majmin', 'majmin_inv', 'sevenths', 'sevenths_inv']

    def build(ctx):
        return ev.build(ctx, size)

    def body(A, inp):
        log = []
        stubs = [(CHORD, fn, make_stub(getattr(CHORD, fn), 1, log)) for fn in RULES + ['weighted_accuracy', 'underseg', 'overseg']]
        ri, rl, ei, el = (T.cp(a) for a in inp['args'])
        with E.stubbed(stubs):
            scores = CHORD.evaluate(ri, rl, ei, el)
            A.require(list(scores.keys()) == E.KEYS['chord'], 'chord.evaluate:documented-key-list', got=list(scores.keys()))
            # documented pre-processing
            ri, rl, ei, el = (T.cp(a) for a in inp['args'])
            ei2, el2 = U.adjust_intervals(ei, el, ri.min(), ri.max(), CHORD.NO_CHORD, CHORD.NO_CHORD)
            mr = CHORD.merge_chord_intervals(ri, rl)
            me = CHORD.merge_chord_intervals(ei2, el2)
            iv, rl3, el3 = U.merge_labeled_intervals(ri, rl, ei2, el2)
            dur = U.intervals_to_durations(iv)
            for r in RULES:
                want = CHORD.weighted_accuracy(getattr(CHORD, r)(rl3, el3), dur)
                A.require(isinstance(scores[r], Rec) and same_rec(A, scores[r], want), 'chord.evaluate[%s]==weighted_accuracy(%s(merged labels), durations)' % (r, r))
            A.require(isinstance(scores['underseg'], Rec) and same_rec(A, scores['underseg'], CHORD.underseg(mr, me)), 'chord.evaluate[underseg]')
            A.require(isinstance(scores['overseg'], Rec) and same_rec(A, scores['overseg'], CHORD.overseg(mr, me)), 'chord.evaluate[overseg]')
    return Job('C03', 'routing:chord.evaluate[%s]' % 'x'.join(map(str, size)), build, body, funcs=['chord.evaluate', 'chord.merge_chord_intervals'],
               bounds=dict(size=size), timeout_s=900)


def semantic_job(task, size):
    desc = TASKS[task]
    mod = desc['mod']
    ev = E.by_task(task)

    def build(ctx):
        return ev.build(ctx, size)

    def body(A, inp):
        args = tuple(T.cp(a) for a in inp['args'])
        kw0 = dict(inp['kw'])
        with E.stubbed(E.OUT_OF_REACH.get(task, [])):
            scores = getattr(mod, 'evaluate')(*args, **kw0)
            A.require(list(scores.keys()) == E.KEYS[task], '%s.evaluate:documented-key-list' % task, got=list(scores.keys()))
            bad = [k for k, v in scores.items() if not is_scalar(v)]
            A.require(not bad, '%s.evaluate:values-are-real-scalars' % task, non_scalar=bad)
            pre = desc['pre'](tuple(T.cp(a) for a in inp['args']), kw0)
            for keys, fname, argf, forced in desc['entries']:
                f = getattr(mod, fname)
                params = inspect.signature(f).parameters
                has_var_kw = any(p.kind == p.VAR_KEYWORD for p in params.values())
                kw = {}
                if forced != 'NOKW':
                    for k, v in kw0.items():
                        if has_var_kw or k in params:
                            kw[k] = v
                    for k, v in forced.items():
                        if isinstance(v, str) and v.startswith('USER|'):
                            v = kw0.get(k, float(v.split('|')[1]))
                        if has_var_kw or k in params:
                            kw[k] = v
                want = f(*argf(pre), **kw)
                want = want if isinstance(want, tuple) else (want,)
                A.require(len(want) == len(keys), '%s.%s:documented-arity' % (task, fname), got=len(want))
                for k, w in zip(keys, want):
                    if k in scores and is_scalar(scores[k]) and is_scalar(w):
                        A.observe(k, scores[k])
                        A.require(A.eq(scores[k], w), '%s.evaluate[%s]==%s' % (task, k, fname))
    return Job('C03', 'semantic:%s.evaluate[%s]' % (task, 'x'.join(map(str, size))), build, body, funcs=ev.funcs, bounds=dict(size=size),
               exact_floats=ev.exact_floats, timeout_s=ev.timeout_s)


def melody_optional_job(size, which):
    """melody.evaluate with its optional positional annotations: est_voicing and / or ref_reward (arrays in [0, 1]); `which`
    is a pair of flags (est_voicing given, ref_reward given)"""
    ev0 = E.by_task('melody')

    def build(ctx, size_=None):
        inp = ev0.build(ctx, size)
        rt, rf, et, ef = inp['args']

        def unit(tag, k):
            vs = []
            for i in range(k):
                v = ctx.real('%s%d' % (tag, i))
                ctx.assume(v >= 0)
                ctx.assume(v <= 1)
                vs.append(v)
            return S.array(vs)
        ev_ = unit('estv', len(et)) if which[0] else None
        rr_ = unit('refr', len(rt)) if which[1] else None
        inp['args'] = (rt, rf, et, ef, ev_, rr_)
        return inp
    ev = E.Ev('melody', MEL.evaluate, build, ev0.sizes, ev0.funcs + ['melody.to_cent_voicing'], exact_floats=ev0.exact_floats, timeout_s=ev0.timeout_s)
    old = E.EVALS
    try:
        E.EVALS = [ev]
        j = semantic_job('melody', size)
    finally:
        E.EVALS = old
    j.name = 'semantic:melody.evaluate[%s,est_voicing=%s,ref_reward=%s]' % ('x'.join(map(str, size)), 'given' if which[0] else 'None', 'given' if which[1] else 'None')
    return j


def melody_kw_job(size, kw):
    """melody.evaluate with keywords of its pre-processing step (hop: resample both series to a constant hop; kind: interpolation)"""
    ev0 = E.by_task('melody')

    def build(ctx, size_=None):
        inp = ev0.build(ctx, size)
        inp['kw'] = dict(kw)
        return inp
    ev = E.Ev('melody', MEL.evaluate, build, ev0.sizes, ev0.funcs + ['melody.to_cent_voicing', 'melody.resample_melody_series', 'melody.constant_hop_timebase'],
              exact_floats=ev0.exact_floats, timeout_s=ev0.timeout_s)
    old = E.EVALS
    try:
        E.EVALS = [ev]
        j = semantic_job('melody', size)
    finally:
        E.EVALS = old
    j.name = 'semantic:melody.evaluate[%s,%s]' % ('x'.join(map(str, size)), ','.join('%s=%s' % kv for kv in sorted(kw.items())))
    return j


def hierarchy_spans_job(size):
    """hierarchy.evaluate on hierarchies of different durations (the documented pre-processing fits the estimate to the reference's span)"""
    ev0 = E.by_task('hierarchy')
    ev = E.Ev('hierarchy', HIER.evaluate, lambda ctx, size_: E._b_hier_spans(ctx, size), ev0.sizes, ev0.funcs, exact_floats=ev0.exact_floats, timeout_s=ev0.timeout_s)
    old = E.EVALS
    try:
        E.EVALS = [ev]
        j = semantic_job('hierarchy', size)
    finally:
        E.EVALS = old
    j.name = 'semantic:hierarchy.evaluate[%s,independent durations]' % 'x'.join(map(str, size))
    return j


def key_semantic_job(k):
    ev = E.by_task('key')

    def build(ctx):
        return ev.build(ctx, (k, k))

    def body(A, inp):
        r, e = inp['args']
        r = r.get() if hasattr(r, 'get') else r
        e = e.get() if hasattr(e, 'get') else e
        scores = KEY.evaluate(r, e, bogus_keyword=3)
        A.require(list(scores.keys()) == E.KEYS['key'], 'key.evaluate:documented-key-list')
        A.require(is_scalar(scores['Weighted Score']) and A.eq(scores['Weighted Score'], KEY.weighted_score(r, e)), 'key.evaluate[Weighted Score]==weighted_score')
    return Job('C03', 'semantic:key.evaluate[%d keys]' % k, build, body, funcs=['key.evaluate'], bounds=dict(keys=k))


def jobs(tier):
    q = tier == 'quick'
    js = []
    rsz = {
        'beat': [(2, 2), (0, 1)], 'onset': [(2, 1)], 'segment': [(1, 1, 1.0), (2, 1, 1.0)], 'melody': [(2, 0), (1, 2)], 'multipitch': [(1, 1)],
        'transcription': [(1, 1), (0, 1)], 'transcription_velocity': [(1, 1)], 'tempo': [(2, 2)], 'pattern': [(1, 1), (0, 1)],
        'hierarchy': [(2, 2)], 'alignment': [(2,)],
    }
    for task, sizes in rsz.items():
        for size in sizes:
            js.append(routing_job(task, size, False))
        js.append(routing_job(task, sizes[0], True))
    for size in ([(1, 1), (2, 1)] if q else [(1, 1), (2, 1), (1, 2), (2, 2)]):
        js.append(chord_routing_job(size))
    ssz = {
        'beat': [(0, 0), (1, 1), (2, 1)] if q else [(0, 0), (1, 1), (2, 1), (1, 2)],
        'onset': [(0, 0), (2, 2)], 'segment': [(1, 1, 1.0), (1, 0, 1.0)] if q else [(1, 1, 1.0), (1, 0, 1.0), (1, 2, 1.0)],
        'melody': [(1, 0), (2, 0), (1, 2)], 'multipitch': [(1, 1), (0, 1)] if q else [(1, 1), (0, 1), (2, 1)],
        'transcription': [(0, 1), (1, 1)] if q else [(0, 1), (1, 1), (1, 2)], 'tempo': [(2, 2)],
        'pattern': [(1, 1), (0, 1)] if q else [(1, 1), (0, 1), (2, 1)], 'hierarchy': [(2, 2)], 'alignment': [(2,), (3,)],
    }
    for task, sizes in ssz.items():
        for size in sizes:
            js.append(semantic_job(task, size))
    js.append(key_semantic_job(6 if q else len(T.KEY_STRINGS)))
    for which in ([(False, True), (True, True)] if q else [(False, True), (True, False), (True, True)]):
        js.append(melody_optional_job((1, 0), which))
    if not q:
        js.append(melody_optional_job((2, 0), (False, True)))
    js.append(melody_kw_job((1, 2), dict(hop=0.5)))
    js.append(melody_kw_job((2, 3), dict(kind='zero')))
    if not q:
        js.append(melody_kw_job((2, 3), dict(hop=0.25, kind='linear')))
    js.append(hierarchy_spans_job((2, 2)))
    if not q:
        js.append(hierarchy_spans_job((2, 1)))
        js.append(hierarchy_spans_job((1, 2)))
    return js
