"""C04 - event, frame and note metrics equal their published definitions."""
import itertools
import math

import numpy as np
import z3

import mir_eval.beat as BEAT
import mir_eval.onset as ONSET
import mir_eval.segment as SEG
import mir_eval.melody as MEL
import mir_eval.tempo as TEMPO
import mir_eval.key as KEY
import mir_eval.alignment as ALIGN
import mir_eval.pattern as PAT
import mir_eval.transcription as TR

from symx import core as S
from symx.harness import Job
from . import common as C
from . import tasks as T

META = dict(
    explanation="Differential check of the real function against a specification written independently from the cited definitions, over the same symbolic "
                "inputs.  Hit-based P/R/F: the spec is not an algorithm but the definition - k is the size of a maximum one-to-one matching under the "
                "tolerance predicate (a matching of size k exists, none of size k+1: Boolean selection queries), P=k/|est|, R=k/|ref|, F by the beta "
                "formula.  Cemgil: sum_i exp(-min_j d^2/2 sigma^2)/((|r|+|e|)/2) with exp uninterpreted (equality by congruence).  Melody VR/VFA/RPA/RCA/OA "
                "closed forms, tempo P-score and flags, the key relation table (all key pairs), alignment statistics and PCS, boundary deviation, "
                "pattern establishment/occurrence/three-layer scores re-implemented from Collins with symbolic note equality.",
    bounds="events <=3x3 (quick) / 4x4; notes 2x2 / 3x3 (1e-4 s lattice); frames <=3 / 5; patterns <=2x1 / 2x2 (<=2 occurrences, <=2 notes); keys 10x10 quick / all pairs",
    stubs=["as C01"],
    assumptions=["outside the claim: Goto, continuity, P-score, information gain (Davies et al.) - the first two are covered only by C01/C02/C07/C08, the last two "
                 "are out of reach; perturbed repository fixtures (a sampling idea, not solver work)"],
)


def fbeta(p, r, beta=1.0):
    if S.is_sym(p) or S.is_sym(r):
        raise S.Unsupported("symbolic precision in spec")
    if p == 0 and r == 0:
        return 0.0
    return (1 + beta ** 2) * p * r / (beta ** 2 * p + r)


def check_hits(A, name, P, R, F, Tm, n, m, beta=1.0):
    """P, R, F concrete per path; Tm[i][j] tolerance predicate (ref i, est j)"""
    if n == 0 or m == 0:
        A.require(A.And(A.eq(P, 0), A.eq(R, 0), A.eq(F, 0)), name + ':empty-side=>0')
        return
    k = int(round(float(P) * m))
    A.observe(name + '.hits', k)
    A.require(abs(float(P) * m - k) < 1e-9 and abs(float(R) * n - k) < 1e-9, name + ':P==k/|est|,R==k/|ref|')
    if A.sym:
        A.require(C.exists_matching(Tm, k), name + ':a-matching-of-size-k-exists')
        A.require(C.no_larger_matching(Tm, k), name + ':no-larger-matching-exists')
    else:
        mx = C.max_matching_size([[bool(x) for x in row] for row in Tm])
        A.require(mx >= k, name + ':a-matching-of-size-k-exists')
        A.require(mx <= k, name + ':no-larger-matching-exists')
    if S.is_sym(beta):
        A.require(A.eq(F * (beta * beta * P + R), (1 + beta * beta) * P * R) if (P or R) else A.eq(F, 0), name + ':F==beta-formula')
    else:
        A.require(A.eq(F, fbeta(float(P), float(R), beta)), name + ':F==beta-formula')


def job_event_f(which, size):
    n, m = size
    spec = T.by_name(which)

    def build(ctx):
        return spec.build(ctx, size)

    def body(A, inp):
        r, e = inp['ref'][0], inp['est'][0]
        w = list(inp['kw'].values())[0]
        res = spec.call(inp)
        Tm = [[A.xle(C.absd(r[i], e[j]), w) for j in range(m)] for i in range(n)]
        if which == 'beat.f_measure':
            F = res[0]
            if n == 0 or m == 0:
                A.require(A.eq(F, 0), which + ':empty-side=>0')
                return
            # beat.f_measure returns F only: recover k from F = 2k/(n+m)
            k = int(round(float(F) * (n + m) / 2.0))
            A.require(A.eq(F, 2.0 * k / (n + m)), which + ':F==2k/(|ref|+|est|)')
            if A.sym:
                A.require(C.exists_matching(Tm, k), which + ':a-matching-of-size-k-exists')
                A.require(C.no_larger_matching(Tm, k), which + ':no-larger-matching-exists')
            else:
                mx = C.max_matching_size([[bool(x) for x in row] for row in Tm])
                A.require(mx >= k, which + ':a-matching-of-size-k-exists')
                A.require(mx <= k, which + ':no-larger-matching-exists')
        else:
            F, P, R = res
            check_hits(A, which, P, R, F, Tm, n, m)
    return Job('C04', '%s[%dx%d]' % (which, n, m), build, body, funcs=spec.funcs, bounds=dict(size=size), timeout_s=1800)


def job_detection(size, trim):
    n, m = size

    def build(ctx):
        d = T.b_boundary(trim=trim)(ctx, size)
        d['kw']['beta'] = T.posreal(ctx, 'beta', 4)
        return d

    def body(A, inp):
        ri, ei = inp['ref'][0], inp['est'][0]
        P, R, F = SEG.detection(ri, ei, **inp['kw'])
        w = inp['kw']['window']

        def bounds(iv, k):
            if k == 0:
                return []
            b = [iv[0, 0]] + [iv[i, 1] for i in range(k)]
            return b[1:-1] if trim else b
        rb, eb = bounds(ri, n), bounds(ei, m)
        Tm = [[A.xle(C.absd(x, y), w) for y in eb] for x in rb]
        check_hits(A, 'segment.detection', P, R, F, Tm, len(rb), len(eb), inp['kw']['beta'])
    return Job('C04', 'segment.detection[%dx%d,trim=%s]' % (n, m, trim), build, body, funcs=['segment.detection', 'util.intervals_to_boundaries', 'util.match_events'],
               bounds=dict(size=size), exact_floats=False, timeout_s=1800)


def job_deviation(size, trim=False):
    n, m = size

    def build(ctx):
        return T.b_boundary(sym_window=False)(ctx, size)

    def body(A, inp):
        ri, ei = inp['ref'][0], inp['est'][0]
        r2e, e2r = SEG.deviation(ri, ei, trim=trim)
        rb = [ri[0, 0]] + [ri[i, 1] for i in range(n)]
        eb = [ei[0, 0]] + [ei[i, 1] for i in range(m)]
        if trim:
            # the first and the last boundary of each annotation are not counted
            rb, eb = rb[1:-1], eb[1:-1]
            if not rb or not eb:
                A.require(bool(np.isnan(r2e)) and bool(np.isnan(e2r)), 'segment.deviation[trim]:no-interior-boundary=>nan')
                return

        def median_of_nearest(xs, ys):
            # v is the median of d_x = min_y |x-y|:  (odd) #{d<=v} >= h+1 and #{d>=v} >= h+1 ; even: mean of the two middle values
            ds = []
            for x in xs:
                d = None
                for y in ys:
                    t = C.absd(x, y)
                    d = t if d is None else (S._min2(d, t) if A.sym else min(d, t))
                ds.append(d)
            return ds
        for got, ds, tag in ((r2e, median_of_nearest(rb, eb), 'ref_to_est'), (e2r, median_of_nearest(eb, rb), 'est_to_ref')):
            A.observe(tag, got)
            k = len(ds)
            le = 0
            ge = 0
            for d in ds:
                le = le + (S.SymBool(S._zb(A.xle(d, got)))._n() if A.sym else int(d <= got + 1e-12))
                ge = ge + (S.SymBool(S._zb(A.xge(d, got)))._n() if A.sym else int(d >= got - 1e-12))
            half = (k + 1) // 2 if k % 2 else k // 2
            A.require(A.And(A.xge(le, half), A.xge(ge, half)), 'segment.deviation.%s:is-a-median-of-nearest-boundary-distances' % tag)
            if k % 2:
                hit = False
                for d in ds:
                    hit = A.Or(hit, A.eq(d, got))
                A.require(hit, 'segment.deviation.%s:median-is-attained' % tag)
    return Job('C04', 'segment.deviation[%dx%d%s]' % (n, m, ',trim' if trim else ''), build, body, funcs=['segment.deviation'], bounds=dict(size=size), exact_floats=False, timeout_s=1800)


def job_notes(which, size, strict):
    n, m = size

    def build(ctx):
        d = T.b_notes(offset_ratio=0.25 if which != 'no_offset' else None, tol_kw=('onset_tolerance', 'pitch_tolerance', 'offset_min_tolerance'))(ctx, size)
        d['beta'] = T.posreal(ctx, 'beta', 4)
        return d

    def body(A, inp):
        ri, rp = inp['ref']
        ei, ep = inp['est']
        on, pt, om = inp['kw']['onset_tolerance'], inp['kw']['pitch_tolerance'], inp['kw']['offset_min_tolerance']
        beta = inp['beta']
        cmp = (lambda a, b: A.xlt(a, b)) if strict else (lambda a, b: A.xle(a, b))
        rnd = (lambda x: S.sym_round(x, 4) if S.is_sym(x) else np.around(x, 4))

        def t_on(i, j):
            return cmp(rnd(C.absd(ri[i, 0], ei[j, 0])), on)

        def t_off(i, j):
            dur = ri[i, 1] - ri[i, 0]
            tol = S._max2(0.25 * dur, om) if A.sym else max(0.25 * dur, om)
            return cmp(rnd(C.absd(ri[i, 1], ei[j, 1])), tol)

        def t_pitch(i, j):
            lr = S.sym_log2(rp[i]) if S.is_sym(rp[i]) else np.log2(rp[i])
            le = S.sym_log2(ep[j]) if S.is_sym(ep[j]) else np.log2(ep[j])
            return cmp(abs(1200 * (lr - le)), pt)
        if which == 'onset':
            P, R, F = TR.onset_precision_recall_f1(ri, ei, onset_tolerance=on, strict=strict, beta=beta)
            Tm = [[t_on(i, j) for j in range(m)] for i in range(n)]
        elif which == 'offset':
            P, R, F = TR.offset_precision_recall_f1(ri, ei, offset_ratio=0.25, offset_min_tolerance=om, strict=strict, beta=beta)
            Tm = [[t_off(i, j) for j in range(m)] for i in range(n)]
        else:
            ratio = None if which == 'no_offset' else 0.25
            P, R, F, aor = TR.precision_recall_f1_overlap(ri, rp, ei, ep, onset_tolerance=on, pitch_tolerance=pt, offset_ratio=ratio,
                                                           offset_min_tolerance=om, strict=strict, beta=beta)
            Tm = [[A.And(t_on(i, j), t_pitch(i, j), t_off(i, j) if ratio else True) for j in range(m)] for i in range(n)]
        check_hits(A, 'transcription.' + which, P, R, F, Tm, n, m, beta)
    return Job('C04', 'transcription.%s[%dx%d,strict=%s]' % (which, n, m, strict), build, body,
               funcs=['transcription.precision_recall_f1_overlap', 'transcription.onset_precision_recall_f1', 'transcription.offset_precision_recall_f1',
                      'transcription.match_notes'], bounds=dict(size=size), exact_floats=False, timeout_s=1800)


def job_cemgil(size, sigma=0.04):
    n, m = size

    def build(ctx):
        d = T.b_events()(ctx, size)
        return d

    def body(A, inp):
        r, e = inp['ref'][0], inp['est'][0]
        c, cbest = BEAT.cemgil(r, e, cemgil_sigma=sigma)
        A.observe('cemgil', c)

        def acc(refs):
            tot = 0
            for x in refs:
                d = None
                for y in e:
                    t = C.absd(x, y)
                    d = t if d is None else (S._min2(d, t) if A.sym else min(d, t))
                arg = -(d * d) / (2.0 * sigma ** 2)
                tot = tot + (S.uf_apply('exp', arg) if S.is_sym(arg) else math.exp(arg))
            return tot / (0.5 * (m + len(refs)))
        A.require(A.eq(c, acc(list(r))), 'beat.cemgil==sum_i exp(-min_j d^2/2sigma^2)/((|r|+|e|)/2)')
        # metrical variations: off-beat, double tempo, half tempo (odd / even)
        rr = list(r)
        dbl = []
        for i in range(n):
            dbl.append(rr[i])
            if i + 1 < n:
                dbl.append((rr[i] + rr[i + 1]) * 0.5 if True else None)
        variations = [rr, dbl[1::2], dbl, rr[::2], rr[1::2]]
        best = None
        for v in variations:
            if len(v) == 0 and m == 0:
                continue
            a = acc(v) if len(v) else 0.0
            best = a if best is None else (S._max2(best, a) if (S.is_sym(best) or S.is_sym(a)) else max(best, a))
        A.require(A.eq(cbest, best), 'beat.cemgil_best==max-over-metrical-variations')
    return Job('C04', 'beat.cemgil[%dx%d%s]' % (n, m, '' if sigma == 0.04 else ',sigma=%s' % sigma), build, body, funcs=['beat.cemgil', 'beat._get_reference_beat_variations'], bounds=dict(size=size), timeout_s=1800)


def job_melody(n, binary):
    def build(ctx):
        d = T.b_melody()(ctx, (n,))
        if binary:
            for v in list(d['ref'][0]) + list(d['est'][0]):
                ctx.assume(S._lor(v == 0, v == 1))
        return d

    def body(A, inp):
        rv, rc = inp['ref']
        ev, ec = inp['est']
        tol = inp['kw']['cent_tolerance']
        vr, vfa = MEL.voicing_measures(rv, ev)
        rpa = MEL.raw_pitch_accuracy(rv, rc, ev, ec, cent_tolerance=tol)
        rca = MEL.raw_chroma_accuracy(rv, rc, ev, ec, cent_tolerance=tol)
        oa = MEL.overall_accuracy(rv, rc, ev, ec, cent_tolerance=tol)
        for nm, v in (('VR', vr), ('VFA', vfa), ('RPA', rpa), ('RCA', rca), ('OA', oa)):
            A.observe(nm, v)

        def ind(c):
            return S.SymBool(S._zb(c))._n() if A.sym else (1.0 if c else 0.0)
        nv = sum_(ind(A.xgt(rv[i], 0)) for i in range(n))
        nu = sum_(ind(A.xeq(rv[i], 0)) for i in range(n))
        # voicing recall / false alarm (Bittner & Bosch: estimate voicing may be continuous)
        num_vr = sum_(ev[i] * ind(A.xgt(rv[i], 0)) for i in range(n))
        num_fa = sum_(ev[i] * ind(A.xeq(rv[i], 0)) for i in range(n))
        A.require(A.Or(A.And(A.xeq(nv, 0), A.eq(vr, 1)), A.And(A.xgt(nv, 0), A.eq(vr * nv, num_vr))), 'melody.voicing_recall==definition')
        A.require(A.Or(A.And(A.xeq(nu, 0), A.eq(vfa, 0)), A.And(A.xgt(nu, 0), A.eq(vfa * nu, num_fa))), 'melody.voicing_false_alarm==definition')
        # raw pitch / chroma accuracy: reward-weighted fraction of reference-voiced frames whose pitch is within tolerance
        srv = sum_(rv[i] for i in range(n))

        def within(i, chroma):
            nz = A.And(A.Not(A.xeq(ec[i], 0)), A.Not(A.xeq(rc[i], 0)))
            d = abs(rc[i] - ec[i])
            if chroma:
                # distance to the nearest multiple of 1200 cents
                if A.sym:
                    k = S._floor(d / 1200.0 + 0.5)
                    d = abs(d - 1200.0 * k)
                else:
                    d = abs(d - 1200.0 * math.floor(d / 1200.0 + 0.5))
            return A.And(nz, A.xlt(d, tol))
        for got, chroma, tag in ((rpa, False, 'raw_pitch_accuracy'), (rca, True, 'raw_chroma_accuracy')):
            num = sum_(rv[i] * ind(within(i, chroma)) for i in range(n))
            A.require(A.Or(A.And(A.xeq(srv, 0), A.eq(got, 0)), A.And(A.xgt(srv, 0), A.eq(got * srv, num))), 'melody.%s==definition' % tag)
        # overall accuracy (generalised to continuous voicing)
        if n:
            # Bittner & Bosch: voiced part weighted by the reference reward and the estimated voicing, rescaled by
            # (#voiced / sum of rewards); unvoiced part (1 - [ref voiced]) * (1 - est voicing)
            hit = sum_(rv[i] * ev[i] * ind(within(i, False)) for i in range(n))
            unv = sum_(ind(A.xeq(rv[i], 0)) * (1 - ev[i]) for i in range(n))
            if binary:
                A.require(A.eq(oa * n, hit + unv), 'melody.overall_accuracy==definition')
            else:
                # oa*n == (nv/srv)*hit + unv   <=>   (oa*n - unv)*srv == nv*hit   (srv > 0), and oa*n == unv when srv == 0
                A.require(A.Or(A.And(A.xeq(srv, 0), A.eq(oa * n, unv)), A.And(A.xgt(srv, 0), A.eq((oa * n - unv) * srv, nv * hit))),
                          'melody.overall_accuracy==definition')
    return Job('C04', 'melody.frame_measures[%d frames,%s voicing]' % (n, 'binary' if binary else 'continuous'), build, body,
               funcs=['melody.voicing_measures', 'melody.raw_pitch_accuracy', 'melody.raw_chroma_accuracy', 'melody.overall_accuracy'],
               bounds=dict(frames=n), timeout_s=1800)


def sum_(it):
    s = 0
    for x in it:
        s = s + x
    return s


def job_tempo():
    spec = T.by_name('tempo.detection')

    def build(ctx):
        return spec.build(ctx, (2, 2))

    def body(A, inp):
        rt, w = inp['ref']
        et = inp['est'][0]
        tol = inp['kw']['tol']
        p, one, both = TEMPO.detection(rt, w, et, tol=tol)
        hits = []
        for i in range(2):
            h = False
            for j in range(2):
                # |r - e| / r <= tol  <=>  |r - e| <= tol * r   (r > 0)
                h = A.Or(h, A.xle(C.absd(rt[i], et[j]), tol * rt[i]))
            hits.append(A.And(A.xgt(rt[i], 0), h))
        def ind(c):
            return S.SymBool(S._zb(c))._n() if A.sym else (1.0 if c else 0.0)
        A.require(A.eq(p, w * ind(hits[0]) + (1 - w) * ind(hits[1])), 'tempo.P-score==w*hit1+(1-w)*hit2')
        A.require(A.Iff(bool(one), A.Or(hits[0], hits[1])), 'tempo.one_correct==any-hit')
        A.require(A.Iff(bool(both), A.And(hits[0], hits[1])), 'tempo.both_correct==all-hit')
    return Job('C04', 'tempo.detection', build, body, funcs=spec.funcs, timeout_s=1500)


SEMI = {'c': 0, 'c#': 1, 'db': 1, 'd': 2, 'd#': 3, 'eb': 3, 'e': 4, 'f': 5, 'f#': 6, 'gb': 6, 'g': 7, 'g#': 8, 'ab': 8, 'a': 9, 'a#': 10, 'bb': 10, 'b': 11}


def ref_key_score(r, e):
    def parse(k):
        if k.lower() == 'x':
            return None, None
        name, mode = k.split()
        s = KEY.KEY_TO_SEMITONE[name.lower()]
        # independent table for the names we know; fall back to the module's table for exotic spellings
        return SEMI.get(name.lower(), s), mode
    rk, rm = parse(r)
    ek, em = parse(e)
    if rk == ek and rm == em:
        return 1.0
    if rk is None or ek is None:
        return 0.0
    if em == rm and (ek - rk) % 12 == 7:
        return 0.5
    if rm == 'major' and em != rm and (ek - rk) % 12 == 9:
        return 0.3
    if rm == 'minor' and em != rm and (ek - rk) % 12 == 3:
        return 0.3
    if em != rm and rk == ek:
        return 0.2
    return 0.0


def job_key(k):
    def build(ctx):
        return T.b_key(ctx, (k, k))

    def body(A, inp):
        r = inp['ref'][0].get() if hasattr(inp['ref'][0], 'get') else inp['ref'][0]
        e = inp['est'][0].get() if hasattr(inp['est'][0], 'get') else inp['est'][0]
        s = KEY.weighted_score(r, e)
        A.observe('score', s)
        A.require(A.eq(s, ref_key_score(r, e)), 'key.weighted_score==relation-table', keys=(r, e))
    return Job('C04', 'key.weighted_score[%d x %d keys]' % (k, k), build, body, funcs=['key.weighted_score', 'key.split_key_string'], bounds=dict(keys=k),
               timeout_s=3000, max_decisions=100000)


def job_alignment(n):
    def build(ctx):
        d = T.b_alignment('window')(ctx, (n,))
        if n >= 2:
            ctx.assume(d['ref'][0][n - 1] > d['ref'][0][0])
        return d

    def body(A, inp):
        r, e = inp['ref'][0], inp['est'][0]
        w = inp['kw']['window']
        med, mean = ALIGN.absolute_error(r, e)
        pc = ALIGN.percentage_correct(r, e, window=w)
        devs = [C.absd(r[i], e[i]) for i in range(n)]
        A.require(A.eq(mean * n, sum_(devs)), 'alignment.mean-absolute-error==definition')
        le = sum_((S.SymBool(S._zb(A.xle(d, med)))._n() if A.sym else int(d <= med + 1e-12)) for d in devs)
        ge = sum_((S.SymBool(S._zb(A.xge(d, med)))._n() if A.sym else int(d >= med - 1e-12)) for d in devs)
        half = (n + 1) // 2 if n % 2 else n // 2
        A.require(A.And(A.xge(le, half), A.xge(ge, half)), 'alignment.median-absolute-error-is-a-median')
        A.require(A.eq(pc * n, sum_((S.SymBool(S._zb(A.xle(d, w)))._n() if A.sym else int(d <= w)) for d in devs)), 'alignment.percentage_correct==definition')
        if n >= 2:
            pcs = ALIGN.percentage_correct_segments(r, e)
            dur = r[n - 1] - r[0]
            ov = 0
            for i in range(n - 1):
                lo = S._max2(r[i], e[i]) if A.sym else max(r[i], e[i])
                hi = S._min2(r[i + 1], e[i + 1]) if A.sym else min(r[i + 1], e[i + 1])
                d = hi - lo
                ov = ov + (S._max2(d, 0) if A.sym else max(d, 0))
            A.require(A.eq(pcs * dur, ov), 'alignment.percentage_correct_segments==overlap/duration')
    return Job('C04', 'alignment[%d timestamps]' % n, build, body, funcs=['alignment.absolute_error', 'alignment.percentage_correct',
                                                                            'alignment.percentage_correct_segments'], bounds=dict(n=n), timeout_s=1800)


# ---------------------------------------------------------------- pattern discovery (Collins)

def _eq_note(a, b):
    return bool(a[0] == b[0]) and bool(a[1] == b[1])


def _inter(P, Q):
    """|P ∩ Q| for occurrences as *sets* of (onset, midi) points"""
    pts = []
    for a in P:
        if not any(_eq_note(a, x) for x in pts):
            pts.append(a)
    qts = []
    for b in Q:
        if not any(_eq_note(b, x) for x in qts):
            qts.append(b)
    return sum(1 for a in pts if any(_eq_note(a, b) for b in qts))


def _card(P, Q):
    return _inter(P, Q) / float(max(len(P), len(Q)))


def ref_establishment(ref, est):
    nP, nQ = len(ref), len(est)
    Smat = [[max(_card(p, q) for p in rp for q in eq) for eq in est] for rp in ref]
    prec = sum(max(Smat[i][j] for i in range(nP)) for j in range(nQ)) / nQ
    rec = sum(max(Smat[i][j] for j in range(nQ)) for i in range(nP)) / nP
    return fbeta(prec, rec), prec, rec


def ref_occurrence(ref, est, thres):
    nP, nQ = len(ref), len(est)
    rel = []
    Pm, Rm = {}, {}
    for i, rp in enumerate(ref):
        for j, eq in enumerate(est):
            s = [[_card(p, q) for q in eq] for p in rp]
            if max(max(row) for row in s) >= thres:
                rel.append((i, j))
                Pm[(i, j)] = sum(max(s[a][b] for a in range(len(rp))) for b in range(len(eq))) / len(eq)
                Rm[(i, j)] = sum(max(s[a][b] for b in range(len(eq))) for a in range(len(rp))) / len(rp)
    if not rel:
        return 0.0, 0.0, 0.0
    rows = sorted(set(i for i, j in rel))
    cols = sorted(set(j for i, j in rel))
    # mir_eval indexes the score matrices with np.ix_(rel rows, rel cols): entries of non-relevant pairs inside that grid are 0
    prec = sum(max(Pm.get((i, j), 0.0) for i in [a for a, b in rel]) for j in [b for a, b in rel]) / len(rel)
    rec = sum(max(Rm.get((i, j), 0.0) for j in [b for a, b in rel]) for i in [a for a, b in rel]) / len(rel)
    return fbeta(prec, rec), prec, rec


def ref_three_layer(ref, est):
    def f1(P, Q):
        s = _inter(P, Q)
        return fbeta(s / float(len(P)), s / float(len(Q)))

    def f2(rp, eq):
        M = [[f1(p, q) for q in eq] for p in rp]
        prec = sum(max(M[a][b] for a in range(len(rp))) for b in range(len(eq))) / len(eq)
        rec = sum(max(M[a][b] for b in range(len(eq))) for a in range(len(rp))) / len(rp)
        return fbeta(prec, rec)
    M = [[f2(rp, eq) for eq in est] for rp in ref]
    prec = sum(max(M[i][j] for i in range(len(ref))) for j in range(len(est))) / len(est)
    rec = sum(max(M[i][j] for j in range(len(est))) for i in range(len(ref))) / len(ref)
    return fbeta(prec, rec), prec, rec


def job_pattern(which, size, occ, notes):
    def build(ctx):
        return T.b_patterns(occ, notes)(ctx, size)

    def body(A, inp):
        ref, est = inp['ref'][0], inp['est'][0]
        if which == 'establishment':
            got = PAT.establishment_FPR(ref, est)
            want = ref_establishment(ref, est)
        elif which == 'occurrence':
            got = PAT.occurrence_FPR(ref, est, thres=0.5)
            want = ref_occurrence(ref, est, 0.5)
        else:
            got = PAT.three_layer_FPR(ref, est)
            want = ref_three_layer(ref, est)
        for nm, g, w in zip(('F', 'P', 'R'), got, want):
            A.observe(nm, g)
            A.require(A.eq(g, w), 'pattern.%s_FPR.%s==Collins-definition' % (which, nm), want=w)
    return Job('C04', 'pattern.%s_FPR[%s,occ=%s,notes=%s]' % (which, 'x'.join(map(str, size)), occ, notes), build, body,
               funcs=['pattern.%s_FPR' % which, 'pattern._compute_score_matrix', 'pattern._occurrence_intersection'], bounds=dict(size=size), timeout_s=2400)


def job_multipitch(nr, ne):
    """one frame with nr reference and ne estimated pitches in any order: precision = k/|est|, recall = k/|ref|,
    accuracy = k/(|ref|+|est|-k) with k the size of a maximum one-to-one matching of pitches within `window` semitones"""
    import mir_eval.multipitch as MP

    def build(ctx):
        d = T.b_multipitch(1)(ctx, (1, 1))
        rf = [C.log_freqs(ctx, 'rf', nr)]
        ef = [C.log_freqs(ctx, 'ef', ne)]
        return dict(t=d['ref'][0], rf=rf, ef=ef, w=d['kw']['window'])

    def body(A, inp):
        res = MP.metrics(inp['t'], inp['rf'], inp['t'].copy(), inp['ef'], window=inp['w'])
        P, R, Acc = res[0], res[1], res[2]
        for nm, v in (('P', P), ('R', R), ('Acc', Acc)):
            A.observe(nm, v)
        rm = MP.frequencies_to_midi(inp['rf'])[0]
        em = MP.frequencies_to_midi(inp['ef'])[0]
        Tm = [[(A.le(C.absd(rm[i], em[j]), inp['w']) if A.sym else bool(abs(rm[i] - em[j]) <= inp['w'])) for j in range(ne)] for i in range(nr)]
        k = int(round(float(P) * ne))
        A.require(abs(float(P) * ne - k) < 1e-9 and abs(float(R) * nr - k) < 1e-9, 'multipitch:P==k/|est|,R==k/|ref|')
        A.require(A.eq(Acc, k / float(nr + ne - k)), 'multipitch:Acc==k/(|ref|+|est|-k)')
        if A.sym:
            A.require(C.exists_matching(Tm, k), 'multipitch:a-matching-of-size-k-exists')
            A.require(C.no_larger_matching(Tm, k), 'multipitch:no-larger-matching-exists')
        else:
            mx = C.max_matching_size([[bool(x) for x in row] for row in Tm])
            A.require(mx >= k, 'multipitch:a-matching-of-size-k-exists')
            A.require(mx <= k, 'multipitch:no-larger-matching-exists')
    return Job('C04', 'multipitch.metrics[1 frame,%dx%d pitches in any order]' % (nr, ne), build, body, exact_floats=False,
               funcs=['multipitch.metrics', 'multipitch.compute_num_true_positives', 'multipitch.compute_accuracy', 'util.match_events'],
               bounds=dict(ref=nr, est=ne), timeout_s=1500)


def jobs(tier):
    q = tier == 'quick'
    js = []
    for which in ('beat.f_measure', 'onset.f_measure'):
        for size in ([(0, 1), (1, 1), (2, 2), (3, 2)] if q else [(0, 1), (1, 1), (2, 2), (3, 2), (3, 3), (4, 3)]):
            js.append(job_event_f(which, size))
    if q:
        js.append(job_deviation((2, 2), trim=True))
    for size, trim in ([((1, 1), False), ((2, 1), False), ((2, 2), True)] if q else [((1, 1), False), ((2, 1), False), ((1, 2), False), ((2, 2), False), ((2, 2), True), ((3, 2), True)]):
        js.append(job_detection(size, trim))
    for size in ([(1, 1), (2, 1)] if q else [(1, 1), (2, 1), (2, 2), (3, 2)]):
        js.append(job_deviation(size))
        if size in ((2, 2), (3, 2)):
            js.append(job_deviation(size, trim=True))
    for which in ('onset', 'offset', 'no_offset', 'with_offset'):
        big = [(2, 3)] if which in ('onset', 'offset') else [(1, 2), (2, 1)]
        for size in ([(1, 1), (2, 2)] if q else [(1, 1), (2, 2)] + big):
            js.append(job_notes(which, size, False))
        js.append(job_notes(which, (1, 2), True))
    for size in ([(1, 1), (2, 1), (1, 2)] if q else [(1, 1), (2, 1), (1, 2), (2, 2), (3, 1)]):
        js.append(job_cemgil(size))
    js.append(job_cemgil((2, 1), sigma=0.125))
    for n in ((1, 2) if q else (1, 2, 3)):
        js.append(job_melody(n, True))
        js.append(job_melody(n, False))
    for (a, b) in ([(2, 1), (2, 2)] if q else [(2, 1), (1, 2), (2, 2), (3, 2)]):
        js.append(job_multipitch(a, b))
    js.append(job_tempo())
    js.append(job_key(10 if q else len(T.KEY_STRINGS)))
    for n in ((1, 2, 3) if q else (1, 2, 3, 4)):
        js.append(job_alignment(n))
    for which in ('establishment', 'occurrence', 'three_layer'):
        for size, occ, notes in ([((1, 1), (1, 1), 1), ((2, 1), (1, 1), 1), ((1, 1), (2, 1), 1)] if q else
                                 [((1, 1), (1, 1), 1), ((2, 1), (1, 1), 1), ((1, 1), (2, 1), 1), ((2, 2), (1, 1), 1), ((1, 1), (1, 1), 2), ((1, 1), (2, 2), 1)]):
            js.append(job_pattern(which, size, occ, notes))
        if which != 'three_layer':
            # occurrences of different sizes: the cardinality score divides by the larger one
            js.append(job_pattern(which, (1, 1), (1, 1), (1, 2)))
            if not q:
                js.append(job_pattern(which, (1, 1), (1, 1), (2, 1)))
    return js
