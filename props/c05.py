"""C05 - hit counts come from a valid, maximum one-to-one matching."""
import itertools

import numpy as np
import z3

import mir_eval.util as U
import mir_eval.transcription as T
import mir_eval.multipitch as MP

from symx import core as S
from symx.harness import Job
from . import common as C

META = dict(
    explanation="Real util._bipartite_match / match_events / transcription.match_* / multipitch.compute_num_true_positives "
                "executed symbolically; per path the returned pairing is checked injective, every pair must satisfy an "
                "independently written tolerance predicate (solver), and a Boolean-selection query shows no larger pairing exists; "
                "the pairing size is compared across permutations of the inputs on the same path.",
    bounds="graphs 3x3 (quick) / 4x4 (thorough) all edge sets; events 3x3 / 4x4; chroma 2x2 / 3x3; notes 2x2 / 3x3 per flag setting; "
           "values unbounded within validity conventions; note times on the 1e-4 s lattice (N_DECIMALS rounding is the identity there)",
    stubs=["np.log2 on log-domain frequency variables rewrites to the exponent (no UF left)"],
    assumptions=["exact real arithmetic for times/tolerances (order-isomorphic to floats for compare-only code; add/subtract exact on dyadic lattices)",
                 "note onsets/offsets are multiples of 1e-4 s"],
)


def _check_pairing(A, pairs, Tm, n, m, site):
    """pairs: list of (i, j) (ref, est).  Tm[i][j]: tolerance predicate."""
    ii = [int(p[0]) for p in pairs]
    jj = [int(p[1]) for p in pairs]
    A.observe(site + '.size', len(pairs))
    A.require(len(set(ii)) == len(ii) and len(set(jj)) == len(jj), site + ':one-to-one')
    A.require(all(0 <= i < n for i in ii) and all(0 <= j < m for j in jj), site + ':indices-in-range')
    ok = True
    for i, j in zip(ii, jj):
        ok = A.And(ok, Tm[i][j])
    A.require(ok, site + ':pairs-satisfy-predicate')
    if A.sym:
        A.require(C.no_larger_matching(Tm, len(pairs)), site + ':maximum')
    else:
        A.require(C.max_matching_size([[bool(x) for x in row] for row in Tm]) == len(pairs), site + ':maximum')


# ---------------------------------------------------------------- bipartite kernel

def job_bipartite(n, m):
    def build(ctx):
        return dict(E=[[ctx.boolean("e_%d_%d" % (u, v)) for v in range(m)] for u in range(n)])

    def body(A, inp):
        E = inp['E']
        G = {}
        for u in range(n):
            for v in range(m):
                if E[u][v]:
                    G.setdefault(u, []).append(v)
        M = U._bipartite_match(G)          # right vertex v -> left vertex u
        pairs = sorted((u, v) for v, u in M.items())
        Tm = [[bool(E[u][v]) for v in range(m)] for u in range(n)]
        _check_pairing(A, pairs, Tm, n, m, 'bipartite')
    return Job('C05', 'bipartite[%dx%d]' % (n, m), build, body, funcs=['util._bipartite_match'],
               bounds=dict(left=n, right=m, edges='all 2^%d edge sets' % (n * m)), timeout_s=1800)


# ---------------------------------------------------------------- match_events

def _perms(k):
    ps = list(itertools.permutations(range(k)))
    if len(ps) > 6:
        ps = [ps[0], ps[-1], tuple(list(range(1, k)) + [0]), ps[len(ps) // 2]]
    return ps


def job_match_events(n, m, chroma=False, sort=False, perms=True):
    def build(ctx):
        if chroma:
            ref = C.events(ctx, 'r', n, lo=0, hi=24, sort=sort)
            est = C.events(ctx, 'e', m, lo=0, hi=24, sort=sort)
        else:
            ref = C.events(ctx, 'r', n, sort=sort)
            est = C.events(ctx, 'e', m, sort=sort)
        w = ctx.real('w')
        ctx.assume(w >= 0)
        if chroma:
            ctx.assume(w <= 6)
        return dict(ref=ref, est=est, w=w)

    def pred(A, r, e, w):
        d = C.absd(r, e)
        if chroma:
            rm, em = S._mod(r, 12) if A.sym else r % 12, S._mod(e, 12) if A.sym else e % 12
            d = C.absd(rm, em)
            d2 = 12 - d
            return A.Or(A.le(d, w), A.le(d2, w))
        return A.le(d, w) if A.sym else bool(d <= w)

    def body(A, inp):
        ref, est, w = inp['ref'], inp['est'], inp['w']
        kw = dict(distance=U._outer_distance_mod_n) if chroma else {}
        pairs = U.match_events(ref, est, w, **kw)
        Tm = [[pred(A, ref[i], est[j], w) for j in range(m)] for i in range(n)]
        _check_pairing(A, pairs, Tm, n, m, 'match_events')
        # size independent of supply order
        k = len(pairs)
        same = True
        for pr in (_perms(n)[1:3] if perms else []):
            for pe in _perms(m)[1:3]:
                p2 = U.match_events(ref[list(pr)], est[list(pe)], w, **kw)
                same = same and (len(p2) == k)
        A.require(same, 'match_events:size-order-independent')
    return Job('C05', 'match_events%s[%dx%d%s%s]' % ('_chroma' if chroma else '', n, m, ',sorted' if sort else ',any-order',
                                                     ',perms' if perms else ''), build, body,
               funcs=['util.match_events', 'util._fast_hit_windows', 'util._bipartite_match', 'util._outer_distance_mod_n'],
               bounds=dict(ref=n, est=m), timeout_s=1800)


# ---------------------------------------------------------------- transcription matchers

def job_match_notes(n, m, which, strict, offset_ratio):
    def build(ctx):
        ri = C.note_intervals(ctx, 'r', n)
        ei = C.note_intervals(ctx, 'e', m)
        rp = C.log_freqs(ctx, 'rp', n)
        ep = C.log_freqs(ctx, 'ep', m)
        on = ctx.real('onset_tol')
        pt = ctx.real('pitch_tol')
        omin = ctx.real('offset_min_tol')
        ctx.assume(on > 0)
        ctx.assume(pt > 0)
        ctx.assume(omin > 0)
        d = dict(ri=ri, ei=ei, rp=rp, ep=ep, onset_tol=on, pitch_tol=pt, offset_min_tol=omin)
        if offset_ratio:
            d['offset_ratio'] = offset_ratio      # concrete (symbolic ratio x symbolic duration is non-linear)
        return d

    def body(A, inp):
        ri, ei, rp, ep = inp['ri'], inp['ei'], inp['rp'], inp['ep']
        on, pt, omin = inp['onset_tol'], inp['pitch_tol'], inp['offset_min_tol']
        ratio = inp.get('offset_ratio')
        cmp = (lambda a, b: A.lt(a, b)) if strict else (lambda a, b: A.le(a, b))
        if not A.sym:
            cmp = (lambda a, b: bool(a < b)) if strict else (lambda a, b: bool(a <= b))
            rnd = lambda x: np.around(x, 4)
        else:
            rnd = lambda x: S.sym_round(x, 4) if S.is_sym(x) else np.around(x, 4)

        def t_on(i, j):
            return cmp(rnd(C.absd(ri[i, 0], ei[j, 0])), on)

        def t_off(i, j):
            dur = ri[i, 1] - ri[i, 0]
            tol = S._max2(ratio * dur, omin) if A.sym else max(ratio * dur, omin)
            return cmp(rnd(C.absd(ri[i, 1], ei[j, 1])), tol)

        def t_pitch(i, j):
            lr = S.sym_log2(rp[i]) if S.is_sym(rp[i]) else np.log2(rp[i])
            le = S.sym_log2(ep[j]) if S.is_sym(ep[j]) else np.log2(ep[j])
            return cmp(abs(1200 * (lr - le)), pt)

        if which == 'velocity':
            # velocity-aware matcher with all velocities equal: the regression fits exactly (exact least-squares model), the
            # velocity filter removes nothing, so the result must be a maximum matching under the note predicate
            import mir_eval.transcription_velocity as TVEL
            rv = (S._wrap(np.full(n, 64.0)) if A.sym else np.full(n, 64.0))
            ev = (S._wrap(np.full(m, 64.0)) if A.sym else np.full(m, 64.0))
            pairs = TVEL.match_notes(ri, rp, rv, ei, ep, ev, onset_tolerance=on, pitch_tolerance=pt, offset_ratio=ratio,
                                     offset_min_tolerance=omin, strict=strict)
            Tm = [[A.And(t_on(i, j), t_pitch(i, j), t_off(i, j) if ratio is not None else True) for j in range(m)] for i in range(n)]
            _check_pairing(A, pairs, Tm, n, m, 'match_' + which)
            return
        if which == 'onsets':
            pairs = T.match_note_onsets(ri, ei, onset_tolerance=on, strict=strict)
            Tm = [[t_on(i, j) for j in range(m)] for i in range(n)]
        elif which == 'offsets':
            pairs = T.match_note_offsets(ri, ei, offset_ratio=ratio, offset_min_tolerance=omin, strict=strict)
            Tm = [[t_off(i, j) for j in range(m)] for i in range(n)]
        else:
            pairs = T.match_notes(ri, rp, ei, ep, onset_tolerance=on, pitch_tolerance=pt, offset_ratio=ratio,
                                  offset_min_tolerance=omin, strict=strict)
            Tm = [[A.And(t_on(i, j), t_pitch(i, j), t_off(i, j) if ratio is not None else True) for j in range(m)] for i in range(n)]
        _check_pairing(A, pairs, Tm, n, m, 'match_' + which)
        # order independence: reverse the estimate, rotate the reference
        pe = list(range(m))[::-1]
        pr = list(range(1, n)) + [0] if n else []
        if which == 'onsets':
            p2 = T.match_note_onsets(ri[pr], ei[pe], onset_tolerance=on, strict=strict)
        elif which == 'offsets':
            p2 = T.match_note_offsets(ri[pr], ei[pe], offset_ratio=ratio, offset_min_tolerance=omin, strict=strict)
        else:
            p2 = T.match_notes(ri[pr], rp[pr], ei[pe], ep[pe], onset_tolerance=on, pitch_tolerance=pt, offset_ratio=ratio,
                               offset_min_tolerance=omin, strict=strict)
        A.require(len(p2) == len(pairs), 'match_%s:size-order-independent' % which)
    nm = 'match_%s[%dx%d,strict=%s,offset_ratio=%s]' % (which, n, m, strict, offset_ratio)
    return Job('C05', nm, build, body, funcs=['transcription.match_notes', 'transcription.match_note_onsets',
                                                'transcription.match_note_offsets', 'util._bipartite_match'] + (['transcription_velocity.match_notes'] if which == 'velocity' else []),
               bounds=dict(ref_notes=n, est_notes=m, time_lattice='1e-4 s'), timeout_s=1800, exact_floats=False, lstsq_exact=(which == 'velocity'))


# ---------------------------------------------------------------- multipitch per-frame counts

def job_mp_tp(nr, ne, chroma):
    def build(ctx):
        # MIDI-valued frames (what compute_num_true_positives receives)
        hi = 12 if chroma else 128
        ref = [C.events(ctx, 'r', nr, lo=0, hi=hi, sort=False)]
        est = [C.events(ctx, 'e', ne, lo=0, hi=hi, sort=False)]
        w = ctx.real('w')
        ctx.assume(w > 0)
        if chroma:
            ctx.assume(w <= 6)
        return dict(ref=ref, est=est, w=w)

    def body(A, inp):
        tp = MP.compute_num_true_positives(inp['ref'], inp['est'], window=inp['w'], chroma=chroma)
        k = tp[0]
        A.observe('tp', k)
        r, e, w = inp['ref'][0], inp['est'][0], inp['w']

        def pred(i, j):
            d = C.absd(r[i], e[j])
            if chroma:
                d = C.absd(S._mod(r[i], 12), S._mod(e[j], 12))
                return A.Or(A.le(d, w), A.le(12 - d, w)) if A.sym else bool(min(d, 12 - d) <= w)
            return A.le(d, w) if A.sym else bool(d <= w)
        Tm = [[pred(i, j) for j in range(ne)] for i in range(nr)]
        kk = int(k)
        A.require(A.eq(k, kk), 'mp_tp:integral')
        A.require(0 <= kk <= min(nr, ne), 'mp_tp:<=min(nref,nest)')
        if A.sym:
            A.require(C.no_larger_matching(Tm, kk), 'mp_tp:maximum')
            A.require(C.exists_matching(Tm, kk), 'mp_tp:attained')
        else:
            A.require(C.max_matching_size([[bool(x) for x in row] for row in Tm]) == kk, 'mp_tp:maximum')
            A.require(True, 'mp_tp:attained')
    return Job('C05', 'multipitch.tp%s[%dx%d]' % ('_chroma' if chroma else '', nr, ne), build, body,
               funcs=['multipitch.compute_num_true_positives', 'util.match_events'], bounds=dict(ref=nr, est=ne), timeout_s=1800)


def jobs(tier):
    q = tier == 'quick'
    js = []
    js.append(job_bipartite(3, 3))
    js.append(job_bipartite(2, 4))
    js.append(job_bipartite(4, 4))      # the smallest size on which a second Hopcroft-Karp phase has to re-use a layered vertex
    if not q:
        js.append(job_bipartite(3, 5))
    for (n, m) in ([(3, 3), (1, 1), (0, 2), (2, 0)] if q else [(3, 3), (4, 4), (3, 4), (4, 5)]):
        js.append(job_match_events(n, m, sort=True, perms=False))
    for (n, m) in ([(2, 2)] if q else [(2, 3), (3, 3)]):
        js.append(job_match_events(n, m, sort=False, perms=True))
    for (n, m) in ([(2, 2)] if q else [(2, 2), (3, 3), (2, 3)]):
        js.append(job_match_events(n, m, chroma=True, perms=q or (n, m) != (3, 3)))
    sizes = [(2, 2)] if q else [(2, 2), (3, 3), (2, 3)]
    for (n, m) in sizes:
        for strict in (False, True):
            if strict and (n, m) == (3, 3):
                continue        # 3x3 with strict comparisons does not finish within the solver limit; 2x3 is the strict bound
            js.append(job_match_notes(n, m, 'onsets', strict, None))
            for ratio in ((0.25,) if q else (0.25, 0.5)):
                js.append(job_match_notes(n, m, 'offsets', strict, ratio))
            for ratio in ((None, 0.25) if q else (None, 0.25, 0.5)):
                js.append(job_match_notes(n, m, 'notes', strict, ratio))
    for strict in (False, True):
        js.append(job_match_notes(1, 1, 'velocity', strict, 0.25))
        js.append(job_match_notes(1, 2, 'velocity', strict, None))
        if not q:
            js.append(job_match_notes(2, 2, 'velocity', strict, 0.25))
    for (n, m) in ([(2, 2)] if q else [(2, 2), (3, 3)]):
        js.append(job_mp_tp(n, m, False))
        js.append(job_mp_tp(n, m, True))
    return js
