"""C06 - swapping reference and estimate exchanges precision and recall."""
from symx.harness import Job
from . import tasks as T

META = dict(
    explanation="For every metric whose criterion is symmetric, the real function is run twice on the same path - m(a, b) and m(b, a) - and "
                "z3 must show P(a,b)=R(b,a), R(a,b)=P(b,a) and equality of the symmetric scores for every input value on the path.",
    bounds="as C01 (events <=3x3 / 4x4, notes 2x2 / 3x3, segmentations <=2+2 / 3+2 with label patterns, patterns <=2x1 / 2x2, hierarchy 2 levels)",
    stubs=["as C01"],
    assumptions=["inputs admissible in both roles (same span etc.); beta = 1 for F; the with-offset transcription criterion is asymmetric by "
                 "definition (reference duration sets the tolerance) and is not required to swap"],
)


def make_job(spec, size):
    def build(ctx):
        return spec.build(ctx, size)

    def body(A, inp):
        r1 = spec.call(inp)
        r2 = A.second(lambda: spec.call(inp, swap=True))
        for (nm, kind), v in zip(spec.outs, r1):
            A.observe(nm, v)
        for (nm, kind), v in zip(spec.outs, r2):
            A.observe(nm + '.swapped', v)
        for i, j in enumerate(spec.swap):
            if j is None:
                continue
            A.require(A.eq(r1[i], r2[j]), '%s:%s(a,b)==%s(b,a)' % (spec.name, spec.outs[i][0], spec.outs[j][0]))
    return Job('C06', '%s[%s]' % (spec.name, 'x'.join(map(str, size))), build, body, funcs=spec.funcs, bounds=dict(size=size),
               exact_floats=spec.exact_floats, timeout_s=spec.timeout_s)


def multipitch_empty_frames_job(ref_counts, est_counts):
    """multipitch frames with the given numbers of pitches per frame (0 = an empty frame; a side may have no pitch at all)"""
    import numpy as np
    from symx import core as S
    from . import common as C
    spec = T.by_name('multipitch.metrics')

    def build(ctx):
        n = len(ref_counts)
        t = C.events(ctx, 't', n, strict=True)

        def frames(tag, counts):
            return [C.log_freqs(ctx, '%s%d_' % (tag, i), k) if k else (S._wrap(np.zeros((0,), dtype=object))) for i, k in enumerate(counts)]
        return dict(ref=(t, frames('rf', ref_counts)), est=(t.copy(), frames('ef', est_counts)), kw={})

    def body(A, inp):
        def fix(side):
            t, fr = side
            return (t, [f if len(f) else np.array([]) for f in fr]) if not A.sym else side
        a = dict(ref=fix(inp['ref']), est=fix(inp['est']), kw=inp['kw'])
        r1 = spec.call(a)
        r2 = A.second(lambda: spec.call(a, swap=True))
        for (nm, kind), v in zip(spec.outs, r1):
            A.observe(nm, v)
        # precision <-> recall, accuracy symmetric (raw and chroma); the error scores are normalised by the reference count and do not swap
        for i, j in ((0, 1), (1, 0), (2, 2), (7, 8), (8, 7), (9, 9)):
            A.require(A.eq(r1[i], r2[j]), '%s:%s(a,b)==%s(b,a)' % (spec.name, spec.outs[i][0], spec.outs[j][0]))
    return Job('C06', 'multipitch.metrics[pitches per frame ref %s est %s]' % (list(ref_counts), list(est_counts)), build, body, funcs=spec.funcs,
               bounds=dict(ref_counts=list(ref_counts), est_counts=list(est_counts)), exact_floats=False, timeout_s=900)


def jobs(tier):
    js = []
    for rc, ec in ([((0,), (1,)), ((1, 0), (0, 1)), ((1,), (2,))] if tier == 'quick' else [((0,), (1,)), ((0, 0), (1, 2)), ((1, 0), (0, 1)), ((2, 0), (1, 1)), ((1,), (2,)), ((2, 1), (1, 2))]):
        js.append(multipitch_empty_frames_job(rc, ec))
    for spec in T.SPECS + T.structure_specs(tier):
        if spec.swap is None or 'C06' in spec.skip:
            continue
        for size in spec.sizes[tier]:
            if len(size) == 2 or spec.name.startswith('hierarchy'):
                js.append(make_job(spec, size))
    return js
