"""C06 - swapping reference and estimate exchanges precision and recall."""
from symx.harness import Job
from . import tasks as T

META = dict(
    explanation="For every metric whose criterion is symmetric, the real function is run twice on the same path - m(a, b) and m(b, a) - and "
                "z3 must show P(a,b)=R(b,a), R(a,b)=P(b,a) and equality of the symmetric scores for every input value on the path.",
    bounds="as C01 (events <=3x3 / 4x4, notes 2x2 / 3x3, segmentations <=2+2 / 3+2 with label patterns, patterns <=2x1 / 2x2, hierarchy 2 levels)",
    stubs=["as C01"],
    assumptions=["inputs admissible in both roles (same span etc.); beta = 1 for F; the with-offset transcription criterion is asymmetric by "
                 "definition (reference duration sets the tolerance) and is not required to swap"],
)


def make_job(spec, size):
    def build(ctx):
        return spec.build(ctx, size)

    def body(A, inp):
        r1 = spec.call(inp)
        r2 = spec.call(inp, swap=True)
        for (nm, kind), v in zip(spec.outs, r1):
            A.observe(nm, v)
        for (nm, kind), v in zip(spec.outs, r2):
            A.observe(nm + '.swapped', v)
        for i, j in enumerate(spec.swap):
            if j is None:
                continue
            A.require(A.eq(r1[i], r2[j]), '%s:%s(a,b)==%s(b,a)' % (spec.name, spec.outs[i][0], spec.outs[j][0]))
    return Job('C06', '%s[%s]' % (spec.name, 'x'.join(map(str, size))), build, body, funcs=spec.funcs, bounds=dict(size=size),
               exact_floats=spec.exact_floats, timeout_s=spec.timeout_s)


def jobs(tier):
    js = []
    for spec in T.SPECS + T.structure_specs(tier):
        if spec.swap is None or 'C06' in spec.skip:
            continue
        for size in spec.sizes[tier]:
            if len(size) == 2 or spec.name.startswith('hierarchy'):
                js.append(make_job(spec, size))
    return js
