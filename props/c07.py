"""C07 - looser criteria never lower a score; nested criteria are ordered."""
import numpy as np

import mir_eval.transcription as TR
import mir_eval.transcription_velocity as TV

from symx import core as S
from symx.harness import Job
from . import common as C
from . import tasks as T

META = dict(
    explanation="Same-path pairs of executions of the real metric with two symbolic settings t1 <= t2 of one tolerance (everything else shared): "
                "z3 must show every precision/recall/accuracy at t1 is <= the one at t2; nested criteria (with-offset <= no-offset <= onset-only, "
                "strict <= non-strict, raw <= chroma, Cemgil <= best-level, CML <= AML, continuous <= total, both-correct => one-correct) are "
                "compared inside one execution or across two on the same path.",
    bounds="as C01/C05; tolerances are unbounded positive reals (tempo tol in [0,1])",
    stubs=["as C01"],
    assumptions=[],
)


def mono_job(spec, size, kwname, outs):
    def build(ctx):
        inp = spec.build(ctx, size)
        t1 = inp['kw'][kwname]
        t2 = ctx.real(kwname + '_looser')
        ctx.assume(t2 >= t1)
        if kwname == 'tol':
            ctx.assume(t2 <= 1)
        if kwname in ('window',) and spec.name.startswith('multipitch'):
            ctx.assume(t2 <= 6)
        if kwname == 'cent_tolerance':
            ctx.assume(t2 <= 600)
        inp['t2'] = t2
        return inp

    def body(A, inp):
        r1 = spec.call(inp)
        r2 = A.second(lambda: spec.call(inp, kw={kwname: inp['t2']}))
        for i in outs:
            A.observe(spec.outs[i][0], r1[i])
            A.observe(spec.outs[i][0] + '.looser', r2[i])
        for i in outs:
            A.require(A.le(r1[i], r2[i]), '%s.%s:non-decreasing-in-%s' % (spec.name, spec.outs[i][0], kwname))
    return Job('C07', '%s[%s,%s]' % (spec.name, 'x'.join(map(str, size)), kwname), build, body, funcs=spec.funcs, bounds=dict(size=size),
               exact_floats=spec.exact_floats, timeout_s=spec.timeout_s)


def nested_job(spec, size):
    def build(ctx):
        return spec.build(ctx, size)

    def body(A, inp):
        r = spec.call(inp)
        for (nm, kind), v in zip(spec.outs, r):
            A.observe(nm, v)
        for i, j in spec.nested:
            A.require(A.le(r[i], r[j]), '%s:%s<=%s' % (spec.name, spec.outs[i][0], spec.outs[j][0]))
    return Job('C07', '%s[%s,nested]' % (spec.name, 'x'.join(map(str, size))), build, body, funcs=spec.funcs, bounds=dict(size=size),
               exact_floats=spec.exact_floats, timeout_s=spec.timeout_s)


def continuity_displaced(nref, moved):
    """continuity of a concrete reference pulse (beats 1 s apart: the metrical variations and all interval ratios are then linear)
    against the same pulse with the beats at positions `moved` displaced by arbitrary amounts (order kept):
    CMLc <= CMLt, AMLc <= AMLt, CMLc <= AMLc, CMLt <= AMLt"""
    import mir_eval.beat as BEAT

    def build(ctx):
        est = []
        for i in range(nref):
            if i in moved:
                d = ctx.real('d%d' % i)
                ctx.assume(d > -1)
                ctx.assume(d < 1)
                est.append(i + d)
            else:
                est.append(float(i))
        for a, b in zip(est, est[1:]):
            ctx.assume(S._b_cmp('lt')(a, b))
        ctx.assume(S._b_cmp('ge')(est[0], 0))
        return dict(est=S.array(est))

    def body(A, inp):
        ref = np.arange(nref, dtype=float)
        if A.sym:
            ref = S._wrap(ref)
        r = BEAT.continuity(ref, inp['est'])
        names = ('CMLc', 'CMLt', 'AMLc', 'AMLt')
        for nm, v in zip(names, r):
            A.observe(nm, v)
        for i, j in ((0, 1), (2, 3), (0, 2), (1, 3)):
            A.require(A.le(r[i], r[j]), 'beat.continuity[displaced pulse]:%s<=%s' % (names[i], names[j]))
    return Job('C07', 'beat.continuity[%d-beat pulse, beats %s displaced,nested]' % (nref, ','.join(map(str, moved))), build, body,
               funcs=['beat.continuity', 'beat._get_reference_beat_variations'], bounds=dict(ref=nref, displaced=list(moved)), timeout_s=1500)


def transcription_nested(size, strict):
    n, m = size

    def build(ctx):
        d = T.b_notes(tol_kw=('onset_tolerance', 'pitch_tolerance', 'offset_min_tolerance'))(ctx, size)
        return d

    def body(A, inp):
        ri, rp = inp['ref']
        ei, ep = inp['est']
        kw = dict(inp['kw'])
        on, pt, om = kw['onset_tolerance'], kw['pitch_tolerance'], kw['offset_min_tolerance']
        w_off = TR.precision_recall_f1_overlap(ri, rp, ei, ep, onset_tolerance=on, pitch_tolerance=pt, offset_ratio=0.25, offset_min_tolerance=om, strict=strict)
        no_off = TR.precision_recall_f1_overlap(ri, rp, ei, ep, onset_tolerance=on, pitch_tolerance=pt, offset_ratio=None, strict=strict)
        onset = TR.onset_precision_recall_f1(ri, ei, onset_tolerance=on, strict=strict)
        for i, nm in enumerate(('P', 'R', 'F')):
            A.observe('with_offset.' + nm, w_off[i])
            A.observe('no_offset.' + nm, no_off[i])
            A.observe('onset_only.' + nm, onset[i])
            A.require(A.le(w_off[i], no_off[i]), 'transcription.%s:with-offset<=no-offset' % nm)
            A.require(A.le(no_off[i], onset[i]), 'transcription.%s:no-offset<=onset-only' % nm)
        if not strict:
            s_no = TR.precision_recall_f1_overlap(ri, rp, ei, ep, onset_tolerance=on, pitch_tolerance=pt, offset_ratio=None, strict=True)
            s_on = TR.onset_precision_recall_f1(ri, ei, onset_tolerance=on, strict=True)
            for i, nm in enumerate(('P', 'R', 'F')):
                A.require(A.le(s_no[i], no_off[i]), 'transcription.%s:strict<=non-strict' % nm)
                A.require(A.le(s_on[i], onset[i]), 'transcription.onset.%s:strict<=non-strict' % nm)
    return Job('C07', 'transcription.nested[%dx%d,strict=%s]' % (n, m, strict), build, body, exact_floats=False,
               funcs=['transcription.precision_recall_f1_overlap', 'transcription.onset_precision_recall_f1', 'transcription.match_notes'],
               bounds=dict(ref=n, est=m), timeout_s=1500)


def transcription_strict_fine(size):
    """strict=True never scores above strict=False, with note times on the 1e-5 s lattice: the rounding of onset/offset
    distances to N_DECIMALS=4 is then a real rounding (on the 1e-4 lattice of the other jobs it is the identity)"""
    n, m = size

    def build(ctx):
        return T.b_notes(tol_kw=('onset_tolerance', 'offset_min_tolerance'), grid=100000)(ctx, size)

    def body(A, inp):
        ri, rp = inp['ref']
        ei, ep = inp['est']
        on, om = inp['kw']['onset_tolerance'], inp['kw']['offset_min_tolerance']
        calls = [
            ('onset', lambda s: TR.onset_precision_recall_f1(ri, ei, onset_tolerance=on, strict=s)),
            ('offset', lambda s: TR.offset_precision_recall_f1(ri, ei, offset_ratio=0.25, offset_min_tolerance=om, strict=s)),
            ('overlap', lambda s: TR.precision_recall_f1_overlap(ri, rp, ei, ep, onset_tolerance=on, offset_ratio=0.25,
                                                                  offset_min_tolerance=om, strict=s)[:3]),
        ]
        for nm, f in calls:
            a, b = f(True), f(False)
            for i, k in enumerate(('P', 'R', 'F')):
                A.observe('%s.%s' % (nm, k), (a[i], b[i]))
                A.require(A.le(a[i], b[i]), 'transcription.%s.%s:strict<=non-strict(1e-5 s lattice)' % (nm, k))
    return Job('C07', 'transcription.strict-vs-nonstrict[%dx%d,1e-5 lattice]' % (n, m), build, body, exact_floats=False,
               funcs=['transcription.onset_precision_recall_f1', 'transcription.offset_precision_recall_f1', 'transcription.precision_recall_f1_overlap',
                      'transcription.match_notes', 'transcription.match_note_onsets', 'transcription.match_note_offsets'],
               bounds=dict(ref=n, est=m, time_lattice='1e-5 s'), timeout_s=1500)


def match_events_mono(n, m):
    """hit count of util.match_events is monotone in the window, items supplied in any order"""
    import mir_eval.util as U

    def build(ctx):
        ref = C.events(ctx, 'r', n, sort=False)
        est = C.events(ctx, 'e', m, sort=False)
        w1 = T.posreal(ctx, 'w1')
        w2 = ctx.real('w2')
        ctx.assume(w2 >= w1)
        return dict(ref=ref, est=est, w1=w1, w2=w2)

    def body(A, inp):
        k1 = len(U.match_events(inp['ref'], inp['est'], inp['w1']))
        k2 = len(U.match_events(inp['ref'], inp['est'], inp['w2']))
        A.observe('hits', (k1, k2))
        A.require(k1 <= k2, 'util.match_events:hits-non-decreasing-in-window')
    return Job('C07', 'util.match_events[%dx%d,any order,window]' % (n, m), build, body, funcs=['util.match_events', 'util._fast_hit_windows', 'util._bipartite_match'],
               bounds=dict(ref=n, est=m), timeout_s=1500)


def multipitch_frame_mono(nf):
    """multipitch.metrics with nf frequencies per frame (any order): P/R/Acc monotone in the window, raw <= chroma"""
    spec = T.by_name('multipitch.metrics')

    def build(ctx):
        d = T.b_multipitch(nf)(ctx, (1, 1))
        # same time base: no resampling, one frame
        d['est'] = (d['ref'][0].copy(), d['est'][1])
        w2 = ctx.real('window_looser')
        ctx.assume(w2 >= d['kw']['window'])
        ctx.assume(w2 <= 6)
        d['t2'] = w2
        return d

    def body(A, inp):
        r1 = spec.call(inp)
        r2 = A.second(lambda: spec.call(inp, kw={'window': inp['t2']}))
        for i in (0, 1, 2, 7, 8, 9):
            A.observe(spec.outs[i][0], r1[i])
            A.require(A.le(r1[i], r2[i]), 'multipitch.%s:non-decreasing-in-window' % spec.outs[i][0])
        for i, j in ((0, 7), (1, 8), (2, 9)):
            A.require(A.le(r1[i], r1[j]), 'multipitch:%s<=%s' % (spec.outs[i][0], spec.outs[j][0]))
    return Job('C07', 'multipitch.metrics[1 frame,%dx%d frequencies,window]' % (nf, nf), build, body, funcs=spec.funcs, exact_floats=False,
               bounds=dict(freqs=nf), timeout_s=1800)


def velocity_nested(size):
    """with velocity <= without velocity (for any regression outcome)"""
    n, m = size

    def build(ctx):
        # the note-matching tolerances are symbolic too and are given to both variants (offset_ratio 0.25: dyadic)
        return T.b_notes(velocity=True, offset_ratio=0.25, tol_kw=('velocity_tolerance', 'onset_tolerance', 'pitch_tolerance', 'offset_min_tolerance'))(ctx, size)

    def body(A, inp):
        ri, rp, rv = inp['ref']
        ei, ep, ev = inp['est']
        wv = TV.precision_recall_f1_overlap(ri, rp, rv, ei, ep, ev, **inp['kw'])
        wo = TR.precision_recall_f1_overlap(ri, rp, ei, ep, **{k: v for k, v in inp['kw'].items() if k != 'velocity_tolerance'})
        for i, nm in enumerate(('P', 'R', 'F')):
            A.observe('with_velocity.' + nm, wv[i])
            A.observe('without.' + nm, wo[i])
            A.require(A.le(wv[i], wo[i]), 'transcription.%s:with-velocity<=without' % nm)
    return Job('C07', 'transcription_velocity.nested[%dx%d]' % (n, m), build, body, exact_floats=False,
               funcs=['transcription_velocity.precision_recall_f1_overlap', 'transcription.precision_recall_f1_overlap'], bounds=dict(size=size), timeout_s=1500)


def jobs(tier):
    q = tier == 'quick'
    js = []
    for size in ([(1, 1), (1, 2)] if q else [(1, 1), (1, 2), (2, 1)]):
        js.append(velocity_nested(size))
    for (n, m) in ([(2, 2)] if q else [(2, 2), (2, 3), (3, 2)]):
        js.append(match_events_mono(n, m))
    js.append(multipitch_frame_mono(2))
    for spec in T.SPECS:
        if 'C07' in spec.skip:
            continue
        sizes = spec.sizes[tier]
        if spec.mono:
            for kwname, outs in spec.mono:
                for size in sizes:
                    if 0 in size:
                        continue
                    if q and max(size) > 2 and not spec.name.startswith(('melody', 'alignment', 'key', 'tempo')):
                        continue
                    if spec.name.startswith(('transcription', 'segment.detection')) and sum(size) > 3:
                        continue
                    if not q and max(size) > 3 and not spec.name.startswith(('melody', 'alignment', 'key', 'tempo')):
                        continue
                    js.append(mono_job(spec, size, kwname, outs))
        if spec.nested:
            for size in sizes:
                js.append(nested_job(spec, size))
    for size in ([(1, 1), (1, 2)] if q else [(1, 1), (1, 2), (2, 1)]):
        js.append(transcription_nested(size, False))
    js.append(transcription_nested((1, 2), True))
    for size in ([(1, 1)] if q else [(1, 1), (1, 2)]):
        js.append(transcription_strict_fine(size))
    import itertools
    for moved in itertools.combinations(range(5), 2):
        js.append(continuity_displaced(5, moved))
    if not q:
        for moved in [(0, 2, 4), (1, 3, 5)]:
            js.append(continuity_displaced(6, moved))
    return js
