"""C08 - scores ignore time origin, item order and segment label names."""
import itertools

import numpy as np

import mir_eval.beat as BEAT
import mir_eval.chord as CHORD
import mir_eval.hierarchy as HIER

from symx import core as S
from symx.harness import Job
from . import common as C
from . import tasks as T
from . import evals as E

META = dict(
    explanation="Same-path pairs of executions of the real metric on x and on its transformed copy (all times + symbolic delta >= 0; permuted notes / "
                "frame frequencies / estimated tempi / reference pattern list; label bijections applied to each annotation independently); z3 must "
                "show all compared scores equal for every input on the path.",
    bounds="as C01; delta a non-negative real with shifted inputs kept valid (<= 30000 s; beats >= 5 s for beat.evaluate); all permutations of <=3 items; "
           "all bijections onto fresh names of the <=3 labels used",
    stubs=["as C01"],
    assumptions=["time shift of segment/hierarchy annotations is not in the statement (they must start at 0)", "P-score re-basing out of reach"],
)


def _times_ok(ctx, inp):
    for side in ('ref', 'est'):
        a = inp[side][0]
        if isinstance(a, np.ndarray) and a.dtype == object:
            for v in a.reshape(-1):
                if S.is_sym(v):
                    ctx.assume(v <= 30000)


def shift_job(spec, size):
    def build(ctx):
        inp = spec.build(ctx, size)
        # note times live on the 1e-4 s lattice (N_DECIMALS rounding): the shift stays on it
        d = ctx.gridnum('delta', 10000) if spec.name.startswith('transcription') else ctx.real('delta')
        ctx.assume(d >= 0)
        sh = spec.shift(inp, d)
        if not spec.name.startswith('pattern'):
            _times_ok(ctx, sh)
        inp['delta'] = d
        return inp

    def body(A, inp):
        d = inp['delta']
        base = dict(ref=inp['ref'], est=inp['est'], kw=inp['kw'])
        r1 = spec.call(base)
        r2 = A.second(lambda: spec.call(spec.shift(base, d)))
        for (nm, kind), v in zip(spec.outs, r1):
            A.observe(nm, v)
        for (nm, kind), a, b in zip(spec.outs, r1, r2):
            A.require(A.eq(a, b), '%s.%s:unchanged-by-time-shift' % (spec.name, nm))
    return Job('C08', 'shift:%s[%s]' % (spec.name, 'x'.join(map(str, size))), build, body, funcs=spec.funcs, bounds=dict(size=size),
               exact_floats=spec.exact_floats, timeout_s=spec.timeout_s)


def beat_evaluate_shift(size):
    ev = E.by_task('beat')

    def build(ctx):
        n, m = size
        d = ctx.real('delta')
        ctx.assume(d >= 0)
        r = T.beats(ctx, 'r', n, lo=5.0)
        e = T.beats(ctx, 'e', m, lo=5.0)
        for a in (r, e):
            for v in a:
                ctx.assume(v + d <= 30000)
        return dict(r=r, e=e, delta=d)

    def body(A, inp):
        s1 = ev.call(dict(args=(inp['r'], inp['e']), kw={}))
        s2 = ev.call(dict(args=(inp['r'] + inp['delta'], inp['e'] + inp['delta']), kw={}))
        A.require(list(s1.keys()) == list(s2.keys()), 'beat.evaluate:same-keys')
        for k in s1:
            if k in ('P-score', 'Information gain'):
                continue
            A.observe(k, s1[k])
            A.require(A.eq(s1[k], s2[k]), 'beat.evaluate[%s]:unchanged-by-time-shift' % k)
    return Job('C08', 'shift:beat.evaluate[%dx%d]' % size, build, body, funcs=ev.funcs + ['beat.f_measure', 'beat.cemgil', 'beat.goto', 'beat.continuity'],
               bounds=dict(size=size), timeout_s=1800)


def chord_evaluate_shift(size):
    ev = E.by_task('chord')

    def build(ctx):
        inp = ev.build(ctx, size)
        d = ctx.real('delta')
        ctx.assume(d >= 0)
        inp['delta'] = d
        return inp

    def body(A, inp):
        ri, rl, ei, el = inp['args']
        d = inp['delta']
        s1 = ev.call(dict(args=(ri, list(rl), ei, list(el)), kw={}))
        s2 = ev.call(dict(args=(ri + d, list(rl), ei + d, list(el)), kw={}))
        for k in s1:
            A.observe(k, s1[k])
            A.require(A.eq(s1[k], s2[k]), 'chord.evaluate[%s]:unchanged-by-time-shift' % k)
    return Job('C08', 'shift:chord.evaluate[%dx%d]' % size, build, body, funcs=ev.funcs, bounds=dict(size=size), timeout_s=1800)


def perm_notes_job(spec, size):
    n, m = size

    def build(ctx):
        return spec.build(ctx, size)

    def body(A, inp):
        r1 = spec.call(inp)
        for (nm, kind), v in zip(spec.outs[:3], r1):
            A.observe(nm, v)
        pr = list(range(n))[::-1]
        # the reference is reversed; the estimate runs through up to three non-identity orders (its only order if it has one note)
        for pe in (list(itertools.permutations(range(m)))[1:4] or [tuple(range(m))]):
            pe = list(pe)
            p = dict(ref=tuple(a[pr] for a in inp['ref']), est=tuple(a[pe] for a in inp['est']), kw=inp['kw'])
            r2 = A.second(lambda: spec.call(p))
            for i in range(3):
                A.require(A.eq(r1[i], r2[i]), '%s.%s:unchanged-by-note-order' % (spec.name, spec.outs[i][0]))
    return Job('C08', 'permute-notes:%s[%dx%d]' % (spec.name, n, m), build, body, funcs=spec.funcs, bounds=dict(size=size), exact_floats=False,
               timeout_s=1500)


def perm_multipitch_job():
    spec = T.by_name('multipitch.metrics')

    def build(ctx):
        return T.b_multipitch(2)(ctx, (1, 1))

    def body(A, inp):
        r1 = spec.call(inp)
        rt, rf = inp['ref']
        et, ef = inp['est']
        p = dict(ref=(rt, [f[::-1] for f in rf]), est=(et, [f[::-1] for f in ef]), kw=inp['kw'])
        r2 = A.second(lambda: spec.call(p))
        for i, (nm, kind) in enumerate(spec.outs):
            A.observe(nm, r1[i])
            A.require(A.eq(r1[i], r2[i]), 'multipitch.metrics.%s:unchanged-by-frequency-order-within-frame' % nm)
    return Job('C08', 'permute-frame-frequencies:multipitch.metrics[1 frame, 2x2]', build, body, funcs=spec.funcs, exact_floats=False, timeout_s=1500)


def perm_tempo_job():
    spec = T.by_name('tempo.detection')

    def build(ctx):
        return spec.build(ctx, (2, 2))

    def body(A, inp):
        r1 = spec.call(inp)
        p = dict(ref=inp['ref'], est=(inp['est'][0][::-1],), kw=inp['kw'])
        r2 = A.second(lambda: spec.call(p))
        for i, (nm, kind) in enumerate(spec.outs):
            A.observe(nm, r1[i])
            A.require(A.eq(r1[i], r2[i]), 'tempo.detection.%s:unchanged-by-order-of-estimated-tempi' % nm)
    return Job('C08', 'permute:tempo.detection[estimated tempi]', build, body, funcs=spec.funcs)


def perm_patterns_job(spec, size, n=None):
    """n: value of the `n` keyword of the first-n scores (they look at the first n *estimated* patterns; the reference list is a set)"""
    def build(ctx):
        inp = spec.build(ctx, size)
        if n is not None:
            inp['kw'] = dict(inp['kw'], n=n)
        return inp

    def body(A, inp):
        r1 = spec.call(inp)
        p = dict(ref=(inp['ref'][0][::-1],), est=inp['est'], kw=inp['kw'])
        r2 = A.second(lambda: spec.call(p))
        for i, (nm, kind) in enumerate(spec.outs):
            A.observe(nm, r1[i])
            A.require(A.eq(r1[i], r2[i]), '%s.%s:unchanged-by-order-of-reference-patterns' % (spec.name, nm))
    return Job('C08', 'permute-reference-patterns:%s[%s%s]' % (spec.name, 'x'.join(map(str, size)), '' if n is None else ',n=%d' % n), build, body, funcs=spec.funcs, timeout_s=1500)


def relabel_job(spec, size):
    def build(ctx):
        return spec.build(ctx, size)

    def body(A, inp):
        r1 = spec.call(inp)
        ri, rl = inp['ref']
        ei, el = inp['est']
        # labels are compared case-insensitively by mir_eval: the bijection acts on the case-folded names
        rl = [str(x).lower() for x in rl]
        el = [str(x).lower() for x in el]
        names = sorted(set(rl)), sorted(set(el))
        # bijections onto fresh names whose sort order is reversed / rotated (index_labels sorts the names)
        maps = []
        for nm in names:
            fresh = ['Q%02d' % (len(nm) - i) for i in range(len(nm))]
            rot = ['z%02d' % ((i + 1) % max(1, len(nm))) for i in range(len(nm))]
            maps.append([dict(zip(nm, fresh)), dict(zip(nm, rot))])
        for (nm, kind), v in zip(spec.outs, r1):
            A.observe(nm, v)
        for k in range(2):
            mr, me = maps[0][k], maps[1][1 - k]
            p = dict(ref=(ri, [mr[x] for x in rl]), est=(ei, [me[x] for x in el]), kw=inp['kw'])
            r2 = A.second(lambda: spec.call(p))
            for i, (nm, kind) in enumerate(spec.outs):
                A.require(A.eq(r1[i], r2[i]), '%s.%s:unchanged-by-label-bijection' % (spec.base, nm))
    return Job('C08', 'relabel:%s' % spec.name, build, body, funcs=spec.funcs, bounds=dict(size=size), exact_floats=False, timeout_s=1500)


def relabel_hier_job(size, rpat, epat):
    """rpat / epat: label pattern of the finest level (case variants of one name included: mir_eval identifies labels
    case-insensitively, so 'a' and 'A' are one name and the bijection acts on the case-folded names)"""
    spec = T.by_name('hierarchy.lmeasure')

    def build(ctx):
        inp = T.b_hier(2, 0.5, 2.0, labels='repeat')(ctx, size)
        (rh, rl), (eh, el) = inp['ref'], inp['est']
        rl = rl[:-1] + [list(rpat)]
        el = el[:-1] + [list(epat)]
        inp['ref'], inp['est'] = (rh, rl), (eh, el)
        return inp

    def body(A, inp):
        r1 = spec.call(inp)
        rh, rl = inp['ref']
        eh, el = inp['est']

        def ren(ls, tag):
            return [['%s_%s' % (tag, x.lower()[::-1]) for x in level] for level in ls]
        r2 = A.second(lambda: spec.call(dict(ref=(rh, ren(rl, 'p')), est=(eh, ren(el, 'q')), kw=inp['kw'])))
        for i, (nm, kind) in enumerate(spec.outs):
            A.observe(nm, r1[i])
            A.require(A.eq(r1[i], r2[i]), 'hierarchy.lmeasure.%s:unchanged-by-label-bijection' % nm)
    return Job('C08', 'relabel:hierarchy.lmeasure[%dx%d|%s|%s]' % (size + (''.join(rpat), ''.join(epat))), build, body, funcs=spec.funcs,
               exact_floats=False, timeout_s=1500)


def jobs(tier):
    q = tier == 'quick'
    js = []
    for spec in T.SPECS:
        if not spec.shift or 'C08' in spec.skip:
            continue
        for size in spec.sizes[tier]:
            if q and (sum(size) > 4 or 0 in size):
                continue
            if not q and (sum(size) > 6 or (spec.name.startswith('transcription') and sum(size) > 4)):
                continue
            js.append(shift_job(spec, size))
    for size in ([(1, 1), (2, 1)] if q else [(1, 1), (2, 1), (1, 2)]):
        js.append(beat_evaluate_shift(size))
    for size in ([(1, 1), (2, 1)] if q else [(1, 1), (2, 1), (1, 2), (2, 2)]):
        js.append(chord_evaluate_shift(size))
    for nm in ('transcription.precision_recall_f1_overlap', 'transcription.precision_recall_f1_overlap[no offset]', 'transcription.onset_precision_recall_f1',
               'transcription.offset_precision_recall_f1'):
        for size in ([(2, 2)] if q else [(2, 2), (1, 3), (3, 1)]):
            js.append(perm_notes_job(T.by_name(nm), size))
    js.append(perm_multipitch_job())
    js.append(perm_tempo_job())
    for nm in ('pattern.standard_FPR', 'pattern.establishment_FPR', 'pattern.occurrence_FPR', 'pattern.three_layer_FPR'):
        js.append(perm_patterns_job(T.by_name(nm), (2, 1)))
        if not q:
            js.append(perm_patterns_job(T.by_name(nm), (2, 2)))
    for nm in ('pattern.first_n_three_layer_P', 'pattern.first_n_target_proportion_R'):
        js.append(perm_patterns_job(T.by_name(nm), (2, 1), n=1))
        if not q:
            js.append(perm_patterns_job(T.by_name(nm), (2, 2), n=1))
            js.append(perm_patterns_job(T.by_name(nm), (2, 1)))
    for spec in T.structure_specs(tier):
        for size in spec.sizes[tier]:
            js.append(relabel_job(spec, size))
    js.append(relabel_hier_job((2, 2), 'ab', 'uv'))
    js.append(relabel_hier_job((3, 2), 'abA', 'uU'))
    if not q:
        js.append(relabel_hier_job((3, 2), 'aAb', 'uv'))
        js.append(relabel_hier_job((3, 3), 'aba', 'uvU'))
    return js
