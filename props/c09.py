"""C09 - pitch spelling, joint transposition and octave are handled as documented."""
import numpy as np
import z3

import mir_eval.chord as CH
import mir_eval.key as KEY
import mir_eval.melody as MEL
import mir_eval.multipitch as MP
import mir_eval.transcription as TR

from symx import core as S
from symx import strings as ST
from symx.harness import Job
from . import common as C
from . import tasks as T
from . import evals as E
from . import c11

META = dict(
    explanation="Chord rules: the 12 real comparison functions on fully symbolic encodings whose roots are jointly transposed by a symbolic k (same "
                "path, one validity query).  Spelling: real pitch_class_to_semitone on symbolic root strings (letter + accidentals).  "
                "chord.evaluate end to end with symbolic times on a label pool, transposed and respelled.  Key: weighted_score under all 12 "
                "transpositions and sharp/flat spellings (finite domain, solver-enumerated).  Frequencies: log-domain variables scaled jointly by a "
                "symbolic factor (melody cents, multipitch, transcription), estimate-only whole-octave shifts (RCA, multipitch chroma), negated "
                "estimated melody frequencies (RPA/RCA).",
    bounds="chord encodings unbounded (mirex: 2 symbolic bitmap positions per label); root strings <=4 (quick) / 5 chars; evaluate pool 7 labels, <=2+2 intervals; "
           "keys: 8x8 pairs quick / all pairs thorough; frames <=2 / 3; notes 1x2 / 2x2",
    stubs=["chord.validate / encode_many stub as in C11 (Inv); log-domain frequencies (log2 rewrites to the exponent)"],
    assumptions=["scaling keeps frequencies inside the 20..5000 Hz validity range", "whole-octave factors are exact (integer exponent shift)"],
)


# ---------------------------------------------------------------- chord rules under transposition (stubbed encodings)

def job_rules_transposed(with_mirex=False, window=(3, 4)):
    fixed = None
    if with_mirex:
        fixed = {i: (1 if i in (0, 4, 7) else 0) for i in range(12) if i not in window}

    def build(ctx):
        k = ctx.integer('k')
        ctx.assume(k >= 0)
        ctx.assume(k <= 11)
        return dict(r=c11.sym_encoding(ctx, 'r', fixed), e=c11.sym_encoding(ctx, 'e', fixed), k=k)

    def transpose(A, enc, k):
        if A.sym:
            newroot = S.SymNum(z3.If(enc['kind'].e == 0, z3.ToReal((z3.ToInt(enc['root'].e) + z3.ToInt(k.e)) % 12), enc['root'].e), isint=True)
            return dict(enc, root=newroot)
        return dict(enc, root=(enc['root'] + k) % 12 if enc['kind'] == 0 else enc['root'])

    def body(A, inp):
        r, e, k = inp['r'], inp['e'], inp['k']
        r2, e2 = transpose(A, r, k), transpose(A, e, k)
        if A.sym:
            c11._TABLE.clear()
            for tok, en in (('R', r), ('E', e), ('R2', r2), ('E2', e2)):
                c11._TABLE[tok] = (en['root'], en['bits'], en['bass'], en['xbits'])
            refs, ests = ['R', 'R2'], ['E', 'E2']
        else:
            refs, ests = [c11.label_of(r), c11.label_of(r2)], [c11.label_of(e), c11.label_of(e2)]
        rules = ['mirex'] if with_mirex else c11.RULES
        for f in rules:
            v = getattr(CH, f)(refs, ests)
            A.observe(f, v)
            A.require(A.xeq(v[0], v[1]), '%s:unchanged-by-joint-transposition' % f)
    nm = 'rules-transposed[%s]' % ('mirex, bits %s symbolic' % (','.join(map(str, window))) if with_mirex else '11 rules')
    return Job('C09', nm, build, body, extra_patches=c11.PATCH, funcs=['chord.' + f for f in c11.RULES + ['mirex']],
               bounds=dict(transposition='symbolic 0..11'), timeout_s=3000, max_decisions=200000)


# ---------------------------------------------------------------- spelling

def job_spelling(L):
    def build(ctx):
        s = ST.string_input(ctx, 'root', L, lo=35, hi=98)
        # letter followed by accidentals (all sharps or all flats)
        first = z3.StrToCode(z3.SubString(s.e, 0, 1))
        ctx.add(first >= 65, first <= 71)
        if L > 1:
            acc = z3.SubString(s.e, 1, L - 1)
            ctx.add(z3.Or(z3.InRe(acc, z3.Star(z3.Re("#"))), z3.InRe(acc, z3.Star(z3.Re("b")))))
        return dict(root=s)

    def body(A, inp):
        s = inp['root']
        v = CH.pitch_class_to_semitone(s)
        lab = s.conc() if A.sym else s
        A.observe('semitone', v)
        base = {'C': 0, 'D': 2, 'E': 4, 'F': 5, 'G': 7, 'A': 9, 'B': 11}[lab[0]]
        want = (base + lab[1:].count('#') - lab[1:].count('b')) % 12
        A.require(int(v) == want, 'pitch_class_to_semitone==(letter +/- accidentals) mod 12', label=lab)
        # the same pitch class through encode(): enharmonic spellings share the encoding
        r, bm, b = CH.encode(lab + ':min7')
        A.require(int(r) == want, 'encode-root==pitch-class', label=lab)
    j = Job('C09', 'spelling[root strings of length %d]' % L, build, body, funcs=['chord.pitch_class_to_semitone', 'chord.encode'], lattice=0,
            bounds=dict(length=L), exc_policy='body')
    j.extra_patches = {'chord': {'PITCH_CLASSES': ST.SymDict(CH.PITCH_CLASSES), 'str': ST.sym_str}}
    return j


# ---------------------------------------------------------------- chord.evaluate under respelling + transposition

SHARP = ['C', 'C#', 'D', 'D#', 'E', 'F', 'F#', 'G', 'G#', 'A', 'A#', 'B']
FLAT = ['C', 'Db', 'D', 'Eb', 'Fb', 'F', 'Gb', 'G', 'Ab', 'A', 'Bb', 'Cb']
ODD = ['B#', 'Dbb', 'C##', 'Fbb', 'D##', 'E#', 'Gb', 'F##', 'Ab', 'Bbb', 'A#', 'Cb']
ODD_SEM = [0, 0, 2, 3, 4, 5, 6, 7, 8, 9, 10, 11]


def transpose_label(lab, k, names):
    if lab in ('N', 'X'):
        return lab
    root = lab.split(':')[0].split('/')[0]
    rest = lab[len(root):]
    sem = CH_ROOT(root)
    return names[(sem + k) % 12] + rest


def CH_ROOT(root):
    base = {'C': 0, 'D': 2, 'E': 4, 'F': 5, 'G': 7, 'A': 9, 'B': 11}[root[0]]
    return (base + root[1:].count('#') - root[1:].count('b')) % 12


def job_evaluate_transposed(size, k, names, tag):
    ev = E.by_task('chord')

    def build(ctx):
        return ev.build(ctx, size)

    def body(A, inp):
        ri, rl, ei, el = inp['args']
        s1 = ev.call(dict(args=(ri.copy(), list(rl), ei.copy(), list(el)), kw={}))
        rl2 = [transpose_label(x, k, names) for x in rl]
        el2 = [transpose_label(x, k, names) for x in el]
        s2 = ev.call(dict(args=(ri.copy(), rl2, ei.copy(), el2), kw={}))
        for key in s1:
            A.observe(key, s1[key])
            A.require(A.eq(s1[key], s2[key]), 'chord.evaluate[%s]:unchanged-by-transposition+respelling' % key)
    return Job('C09', 'chord.evaluate[%s,k=%d,%s]' % ('x'.join(map(str, size)), k, tag), build, body, funcs=ev.funcs + ['chord.encode'],
               bounds=dict(size=size, k=k, spelling=tag), timeout_s=1500)


# ---------------------------------------------------------------- key

def job_key(dom_size, part=0, nparts=1):
    """part / nparts: the reference key index is restricted to one of nparts contiguous blocks (the blocks together cover the
    whole domain; splitting only spreads the enumeration over more workers)"""
    spec = T.by_name('key.weighted_score')

    def build(ctx):
        d = T.b_key(ctx, (dom_size, dom_size))
        if nparts > 1:
            i = d['ref'][0].i
            n = len(d['ref'][0].dom)
            lo, hi = (n * part) // nparts, (n * (part + 1)) // nparts
            ctx.assume(i >= lo)
            ctx.assume(i < hi)
        k = ctx.integer('k')
        ctx.assume(k >= 0)
        ctx.assume(k <= 11)
        flat = ctx.boolean('flat_spelling')
        return dict(r=d['ref'][0], e=d['est'][0], k=k, flat=flat)

    names_sharp = ['c', 'c#', 'd', 'd#', 'e', 'f', 'f#', 'g', 'g#', 'a', 'a#', 'b']
    names_flat = ['c', 'db', 'd', 'eb', 'e', 'f', 'gb', 'g', 'ab', 'a', 'bb', 'b']

    def tr(key, k, flat):
        if key.lower() == 'x':
            return key
        name, mode = key.split()
        sem = KEY.KEY_TO_SEMITONE[name.lower()]
        return '%s %s' % ((names_flat if flat else names_sharp)[(sem + k) % 12], mode)

    def body(A, inp):
        r = inp['r'].get() if hasattr(inp['r'], 'get') else inp['r']
        e = inp['e'].get() if hasattr(inp['e'], 'get') else inp['e']
        k = S.sym_int(inp['k']) if A.sym else int(inp['k'])
        flat = bool(inp['flat'])
        s1 = KEY.weighted_score(r, e)
        s2 = KEY.weighted_score(tr(r, k, flat), tr(e, k, not flat))
        A.observe('score', s1)
        A.require(A.eq(s1, s2), 'key.weighted_score:unchanged-by-transposition+respelling', keys=(r, e, k))
    return Job('C09', 'key.weighted_score[%d keys x %d keys x 12 transpositions x 2 spellings%s]' % (dom_size, dom_size, '' if nparts == 1 else ', reference block %d/%d' % (part + 1, nparts)), build, body,
               funcs=['key.weighted_score', 'key.split_key_string', 'key.validate_key'], bounds=dict(keys=dom_size), timeout_s=3000, max_decisions=100000)


# ---------------------------------------------------------------- frequency scaling

def _scale(ctx, name='scale', octave=False):
    if octave:
        k = ctx.integer(name + '_octaves')
        ctx.assume(k >= -3)
        ctx.assume(k <= 3)
        return S.LogNum(k.e), k
    c = z3.Real(name + '_log2')
    ctx.inputs[name + '_log2'] = c
    ctx.add(c >= -4, c <= 4)
    return S.LogNum(c), S.SymNum(c)


def _in_range(ctx, arrs, lo_hz=20.0):
    lo = z3.RealVal(S.fractions.Fraction(np.log2(lo_hz)))
    hi = z3.RealVal(S.fractions.Fraction(np.log2(5000.0)))
    for a in arrs:
        for v in np.asarray(a, dtype=object).reshape(-1):
            if isinstance(v, S.LogNum):
                ctx.add(v.l >= lo, v.l <= hi)


def _mul(arr, F):
    return S.array([v * F for v in arr]) if len(arr) else arr


def job_melody_scale(n, lo_hz=20.0):
    """lo_hz: lower end of the frequency range before and after scaling (melody has no documented minimum frequency; values
    below the 10 Hz base of the cent scale have negative cent values)"""
    def build(ctx):
        old = E.MEL_LO
        E.MEL_LO = lo_hz
        try:
            d = E._b_melody(ctx, (n, 0))
        finally:
            E.MEL_LO = old
        F, c = _scale(ctx)
        rt, rf, et, ef = d['args']
        _in_range(ctx, [_mul(rf, F), _mul(ef, F)], lo_hz)
        return dict(rt=rt, rf=rf, et=et, ef=ef, F=F)

    def body(A, inp):
        F = inp['F'] if A.sym else float(inp['F'])
        s1 = MEL.evaluate(inp['rt'], inp['rf'], inp['et'], inp['ef'])
        s2 = MEL.evaluate(inp['rt'], inp['rf'] * F if not A.sym else _mul(inp['rf'], F), inp['et'], inp['ef'] * F if not A.sym else _mul(inp['ef'], F))
        for key in s1:
            A.observe(key, s1[key])
            A.require(A.eq(s1[key], s2[key]), 'melody.evaluate[%s]:unchanged-by-joint-frequency-scaling' % key)
    return Job('C09', 'melody.evaluate[scale,%d frames%s]' % (n, '' if lo_hz == 20.0 else ',frequencies down to %s Hz' % lo_hz), build, body, exact_floats=False,
               funcs=['melody.evaluate', 'melody.hz2cents', 'melody.raw_pitch_accuracy', 'melody.raw_chroma_accuracy', 'melody.overall_accuracy'],
               bounds=dict(frames=n), timeout_s=1500)


def job_melody_est_octave_and_sign(n):
    def build(ctx):
        d = E._b_melody(ctx, (n, 0))
        F, k = _scale(ctx, octave=True)
        rt, rf, et, ef = d['args']
        _in_range(ctx, [_mul(ef, F)])
        return dict(rt=rt, rf=rf, et=et, ef=ef, F=F)

    def body(A, inp):
        F = inp['F'] if A.sym else float(inp['F'])
        ef = inp['ef']
        s1 = MEL.evaluate(inp['rt'], inp['rf'], inp['et'], ef)
        s2 = MEL.evaluate(inp['rt'], inp['rf'], inp['et'], ef * F if not A.sym else _mul(ef, F))
        A.observe('RCA', s1['Raw Chroma Accuracy'])
        A.require(A.eq(s1['Raw Chroma Accuracy'], s2['Raw Chroma Accuracy']), 'melody.raw_chroma_accuracy:unchanged-by-estimate-octave-shift')
        neg = -ef if not A.sym else S.array([(-v if S.is_sym(v) else -v) for v in ef])
        s3 = MEL.evaluate(inp['rt'], inp['rf'], inp['et'], neg)
        A.require(A.eq(s1['Raw Pitch Accuracy'], s3['Raw Pitch Accuracy']), 'melody.raw_pitch_accuracy:unchanged-by-negating-estimated-frequencies')
        A.require(A.eq(s1['Raw Chroma Accuracy'], s3['Raw Chroma Accuracy']), 'melody.raw_chroma_accuracy:unchanged-by-negating-estimated-frequencies')
    return Job('C09', 'melody.evaluate[estimate octave shift / sign flip,%d frames]' % n, build, body, exact_floats=False,
               funcs=['melody.evaluate', 'melody.freq_to_voicing', 'melody.hz2cents', 'melody.raw_chroma_accuracy'], bounds=dict(frames=n), timeout_s=1500)


def job_melody_sign_resampled(n, m):
    """the estimate lives on its own (concrete 0.5 s) time base, so melody.evaluate resamples it: negating estimated
    frequencies (= marking frames unvoiced while keeping the pitch) must still leave raw pitch / raw chroma accuracy unchanged"""
    def build(ctx):
        d = E._b_melody(ctx, (n, m))
        rt, rf, et, ef = d['args']
        return dict(rt=rt, rf=rf, et=et, ef=ef)

    def body(A, inp):
        ef = inp['ef']
        s1 = MEL.evaluate(inp['rt'], inp['rf'], inp['et'], ef)
        A.observe('RPA', s1['Raw Pitch Accuracy'])
        A.observe('RCA', s1['Raw Chroma Accuracy'])
        efc = np.asarray(S.demote(ef) if isinstance(ef, S.SymArray) else ef, dtype=float)
        for mask in ([True] * m, [i % 2 == 0 for i in range(m)], [i % 2 == 1 for i in range(m)]):
            neg = np.where(np.array(mask), -efc, efc)
            neg = S._wrap(neg) if A.sym else neg
            s3 = MEL.evaluate(inp['rt'], inp['rf'], inp['et'], neg)
            A.require(A.eq(s1['Raw Pitch Accuracy'], s3['Raw Pitch Accuracy']), 'melody.raw_pitch_accuracy:unchanged-by-negating-estimated-frequencies(resampled estimate)')
            A.require(A.eq(s1['Raw Chroma Accuracy'], s3['Raw Chroma Accuracy']), 'melody.raw_chroma_accuracy:unchanged-by-negating-estimated-frequencies(resampled estimate)')
    return Job('C09', 'melody.evaluate[sign flip, estimate on its own time base,%dx%d frames]' % (n, m), build, body, exact_floats=False,
               funcs=['melody.evaluate', 'melody.resample_melody_series', 'melody.to_cent_voicing', 'melody.freq_to_voicing'], bounds=dict(ref_frames=n, est_frames=m), timeout_s=1500)


def job_multipitch_scale(size, octave, est_only=False):
    spec = T.by_name('multipitch.metrics')

    def build(ctx):
        d = T.b_multipitch(1)(ctx, size)
        F, c = _scale(ctx, octave=octave)
        rt, rf = d['ref']
        et, ef = d['est']
        _in_range(ctx, [_mul(f, F) for f in (ef if est_only else rf + ef)])
        d['F'] = F
        return d

    def body(A, inp):
        F = inp['F'] if A.sym else float(inp['F'])
        rt, rf = inp['ref']
        et, ef = inp['est']
        sc = (lambda fs: [_mul(f, F) for f in fs]) if A.sym else (lambda fs: [f * F for f in fs])
        r1 = spec.call(dict(ref=(rt, rf), est=(et, ef), kw=inp['kw']))
        r2 = A.second(lambda: spec.call(dict(ref=(rt, rf if est_only else sc(rf)), est=(et, sc(ef)), kw=inp['kw'])))
        idx = range(7, 14) if est_only else (range(14) if octave else range(7))
        for i in idx:
            A.observe(spec.outs[i][0], r1[i])
            A.require(A.eq(r1[i], r2[i]), 'multipitch.%s:unchanged-by-%s' % (spec.outs[i][0], 'estimate-octave-shift' if est_only else 'joint-frequency-scaling'))
    return Job('C09', 'multipitch.metrics[%s,%s,%s]' % ('x'.join(map(str, size)), 'octaves' if octave else 'any factor', 'estimate only' if est_only else 'joint'),
               build, body, exact_floats=False, funcs=spec.funcs + ['multipitch.frequencies_to_midi', 'multipitch.midi_to_chroma'], bounds=dict(size=size),
               timeout_s=1500)


def job_transcription_scale(size):
    spec = T.by_name('transcription.precision_recall_f1_overlap')

    def build(ctx):
        d = T.b_notes(tol_kw=('pitch_tolerance',))(ctx, size)
        F, c = _scale(ctx)
        _in_range(ctx, [_mul(d['ref'][1], F), _mul(d['est'][1], F)])
        d['F'] = F
        return d

    def body(A, inp):
        F = inp['F'] if A.sym else float(inp['F'])
        ri, rp = inp['ref']
        ei, ep = inp['est']
        r1 = spec.call(dict(ref=(ri, rp), est=(ei, ep), kw=inp['kw']))
        r2 = A.second(lambda: spec.call(dict(ref=(ri, _mul(rp, F) if A.sym else rp * F), est=(ei, _mul(ep, F) if A.sym else ep * F), kw=inp['kw'])))
        for i in range(4):
            A.observe(spec.outs[i][0], r1[i])
            A.require(A.eq(r1[i], r2[i]), 'transcription.%s:unchanged-by-joint-frequency-scaling' % spec.outs[i][0])
    return Job('C09', 'transcription.precision_recall_f1_overlap[scale,%s]' % 'x'.join(map(str, size)), build, body, exact_floats=False, funcs=spec.funcs,
               bounds=dict(size=size), timeout_s=1500)


def jobs(tier):
    q = tier == 'quick'
    js = [job_rules_transposed()]
    for w in ([(3, 4)] if q else [(3, 4), (7, 10), (1, 2), (5, 6), (8, 9), (10, 11)]):
        js.append(job_rules_transposed(True, w))
    for L in ((1, 2, 3, 4) if q else (1, 2, 3, 4, 5)):
        js.append(job_spelling(L))
    for (size, k, names, tag) in ([((1, 1), 1, FLAT, 'flats'), ((2, 1), 7, SHARP, 'sharps'), ((1, 2), 0, ODD, 'enharmonic')] if q else
                                  [((1, 1), k, n, t) for k in range(12) for n, t in ((FLAT, 'flats'), (SHARP, 'sharps'))] +
                                  [((2, 2), 5, ODD, 'enharmonic'), ((2, 1), 0, ODD, 'enharmonic'), ((1, 2), 11, FLAT, 'flats')]):
        if names is ODD:
            names = [ODD[ODD_SEM.index(i)] if i in ODD_SEM else SHARP[i] for i in range(12)]
        js.append(job_evaluate_transposed(size, k, names, tag))
    if q:
        js.append(job_key(8))
    else:
        for part in range(8):
            js.append(job_key(len(T.KEY_STRINGS), part, 8))
    for n in ((1, 2) if q else (1, 2, 3)):
        js.append(job_melody_scale(n))
        js.append(job_melody_est_octave_and_sign(n))
    js.append(job_melody_scale(1, lo_hz=1.0))
    if not q:
        js.append(job_melody_scale(2, lo_hz=1.0))
    js.append(job_melody_sign_resampled(2, 3))
    if not q:
        js.append(job_melody_sign_resampled(3, 4))
    for size in ([(1, 1)] if q else [(1, 1), (2, 1)]):
        js.append(job_multipitch_scale(size, octave=False))
        js.append(job_multipitch_scale(size, octave=True))
        js.append(job_multipitch_scale(size, octave=True, est_only=True))
    for size in ([(1, 1), (1, 2)] if q else [(1, 1), (1, 2), (2, 2)]):
        js.append(job_transcription_scale(size))
    return js
