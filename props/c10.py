"""C10 - chord labels: total parsing, sound encoding, split/join round trip."""
import re

import numpy as np
import z3

import mir_eval.chord as CH

from symx import core as S
from symx import strings as ST
from symx.harness import Job
from . import common as C

META = dict(
    explanation="Layer 1 (unbounded length): the live CHORD_RE is translated from its sre parse tree into a z3 regular expression (with CPython's "
                "'$ matches before a final newline' rule) and compared with a regex written from the documented Harte grammar; z3 decides both "
                "inclusions for strings of any length.  Layer 2 (bounded): an arbitrary string of length <= L runs through the real "
                "validate_chord_label / split / join / encode (both flags) / encode_many with CHORD_RE and the lookup tables rebound to symbolic "
                "proxies: only InvalidChordException may be raised, accepted labels satisfy the encoding invariant, N/X map to their sentinels, "
                "encode(join(*split(s))) == encode(s), strict_bass_intervals raises exactly when the bass is absent.  Layer 3: on every accepted "
                "path the (by then concrete) label is re-encoded by an independent table-driven reference encoder.",
    bounds="layer 1: unbounded string length; layers 2-3: every string of length <= 3 (quick) / <= 5 (thorough) over code points 9..126",
    stubs=["re: CHORD_RE.match on a symbolic string is z3 regex membership of the translated parse tree; module tables QUALITIES, PITCH_CLASSES, "
           "SCALE_DEGREES, EXTENDED_QUALITY_REDUX are probed key by key without hashing the symbolic key"],
    assumptions=["code points outside 9..126 behave like any other non-grammar character (the regex and all str methods used treat them alike)"],
)

SHORTS = "maj|min|dim|aug|1|5|sus2|sus4|maj6|min6|7|maj7|min7|dim7|hdim7|minmaj7|aug7|9|maj9|min9|11|maj11|min11|13|maj13|min13"
_DEG = r"(b*|#*)(1[0-3]|[1-9])"
_SDEG = r"\*?" + _DEG
_DEGLIST = r"\(" + _SDEG + r"(," + _SDEG + r")*\)"
GRAMMAR = r"^(N|X|[A-G](b*|#*)(:(" + SHORTS + r")(" + _DEGLIST + r")?|:" + _DEGLIST + r")?(/" + _DEG + r")?)\Z"
GRAMMAR_RE = re.compile(GRAMMAR)


class FreeStr:
    """a string input of unbounded length (layer 1)"""

    def __init__(self, v):
        self.v = v

    def __concretize__(self, model):
        return ST.unescape(model.eval(self.v, model_completion=True).as_string())


def job_language():
    def build(ctx):
        s = z3.String('s')
        ctx.inputs['s'] = s
        return dict(s=FreeStr(s))

    def body(A, inp):
        if A.sym:
            s = inp['s'].v
            impl = ST.rx_to_z3(CH.CHORD_RE.pattern)
            spec = ST.rx_to_z3(GRAMMAR)
            a, g = z3.InRe(s, impl), z3.InRe(s, spec)
            A.require(S.SymBool(z3.Implies(a, g)), 'language:accepted=>documented-grammar')
            A.require(S.SymBool(z3.Implies(g, a)), 'language:documented-grammar=>accepted')
            # structural facts split() relies on when it unpacks str.split results
            slash = z3.StringVal("/")
            twice = lambda ch: z3.InRe(s, z3.Concat(z3.Full(z3.ReSort(z3.StringSort())), z3.Re(ch), z3.Full(z3.ReSort(z3.StringSort())), z3.Re(ch),
                                                      z3.Full(z3.ReSort(z3.StringSort()))))
            A.require(S.SymBool(z3.Implies(a, z3.And(z3.Not(twice("/")), z3.Not(twice("(")), z3.Not(twice(":"))))), 'language:at-most-one-/-(-:')
        else:
            s = inp['s']
            a = bool(CH.CHORD_RE.match(s))
            g = bool(GRAMMAR_RE.match(s))
            A.require((not a) or g, 'language:accepted=>documented-grammar')
            A.require((not g) or a, 'language:documented-grammar=>accepted')
            A.require((not a) or (s.count('/') <= 1 and s.count('(') <= 1 and s.count(':') <= 1), 'language:at-most-one-/-(-:')
    return Job('C10', 'language[CHORD_RE == documented grammar, unbounded length]', build, body, funcs=['chord.validate_chord_label'],
               bounds=dict(length='unbounded'), lattice=0, solver_timeout_ms=120000)


# ---------------------------------------------------------------- reference encoder (layer 3)

LETTER = {'C': 0, 'D': 2, 'E': 4, 'F': 5, 'G': 7, 'A': 9, 'B': 11}
DEGSEM = {1: 0, 2: 2, 3: 4, 4: 5, 5: 7, 6: 9, 7: 11, 8: 12, 9: 14, 10: 16, 11: 17, 12: 19, 13: 21}
# shorthand -> (chord tones within the octave, upper extensions as scale degrees)
QUAL = {
    'maj': ([0, 4, 7], []), 'min': ([0, 3, 7], []), 'dim': ([0, 3, 6], []), 'aug': ([0, 4, 8], []), 'sus4': ([0, 5, 7], []),
    'sus2': ([0, 2, 7], []), '7': ([0, 4, 7, 10], []), 'maj7': ([0, 4, 7, 11], []), 'min7': ([0, 3, 7, 10], []),
    'minmaj7': ([0, 3, 7, 11], []), 'maj6': ([0, 4, 7, 9], []), 'min6': ([0, 3, 7, 9], []), 'dim7': ([0, 3, 6, 9], []),
    'hdim7': ([0, 3, 6, 10], []), '1': ([0], []), '5': ([0, 7], []),
    '9': ([0, 4, 7, 10], ['9']), 'maj9': ([0, 4, 7, 11], ['9']), 'min9': ([0, 3, 7, 10], ['9']),
    '11': ([0, 4, 7, 10], ['9', '11']), 'min11': ([0, 3, 7, 10], ['9', '11']),
    '13': ([0, 4, 7, 10], ['9', '11', '13']), 'maj13': ([0, 4, 7, 11], ['9', '11', '13']), 'min13': ([0, 3, 7, 10], ['9', '11', '13']),
}
UNSUPPORTED_SHORTHANDS = {'aug7', 'maj11'}       # accepted by the grammar, documented tables have no bitmap: encode must raise


def deg_semitone(d):
    acc = len(d) - len(d.lstrip('b#'))
    off = d[:acc].count('#') - d[:acc].count('b')
    return DEGSEM[int(d[acc:])] + off


def ref_encode(label, reduce=False):
    """independent encoder from the documented tables; returns (root, bitmap, bass) or 'invalid'"""
    if label == 'N':
        return -1, [0] * 12, -1
    if label == 'X':
        return -1, [-1] * 12, -1
    m = GRAMMAR_RE.match(label)
    if not m:
        return 'invalid'
    body = label
    bass = '1'
    if '/' in body:
        body, bass = body.split('/')
    degs = []
    if '(' in body:
        body, dl = body.split('(')
        degs = dl.rstrip(')').split(',')
    omit = any(d.startswith('*') for d in degs)
    if ':' in body:
        rootname, short = body.split(':')
    else:
        rootname, short = body, None
    if omit and short is None:
        return 'invalid'
    if short is None or short == '':
        short = '' if degs else 'maj'
    short = short.lower()
    if short in UNSUPPORTED_SHORTHANDS:
        return 'invalid'
    tones, upper = QUAL[short] if short else ([], [])
    root = (LETTER[rootname[0]] + rootname[1:].count('#') - rootname[1:].count('b')) % 12
    bm = [0] * 12
    for t in tones:
        bm[t] = 1
    bm[0] = 1
    acc = [0] * 12
    alldegs = list(degs) + (list(upper) if reduce else [])
    for d in set(alldegs):
        sign = 1
        if d.startswith('*'):
            sign = -1
            d = d[1:]
        st = deg_semitone(d)
        if st < 12 or reduce:
            acc[st % 12] += sign
    bm = [1 if (b + a) > 0 else 0 for b, a in zip(bm, acc)]
    bn = deg_semitone(bass) % 12
    bass_present = bm[bn] == 1
    bm[bn] = 1
    return root, bm, bn, bass_present


def _enc_tuple(e):
    return int(e[0]), [int(x) for x in np.asarray(e[1]).reshape(-1)], int(e[2])


def degree_input(ctx, name, n):
    """a symbolic scale degree of n characters: accidentals (all b or all #) followed by 1..13"""
    v = z3.String(name)
    ctx.inputs[name] = v
    ctx.add(z3.Length(v) == n)
    acc = z3.Union(z3.Star(z3.Re("b")), z3.Star(z3.Re("#")))
    num = z3.Union(z3.Range("1", "9"), z3.Concat(z3.Re("1"), z3.Range("0", "3")))
    ctx.add(z3.InRe(v, z3.Concat(acc, num)))
    return ST.SymStr(v, n)


def job_template(prefix, star, n1, n2, first=None):
    """grammar-derived labels deeper than the free-string bound: <prefix>( [*]<degree of n1 chars> )/<bass degree of n2 chars>;
    `first`: the degree's first character is drawn from this set (the sets used together cover every degree; splitting only
    spreads the work over more workers)"""
    def build(ctx):
        d1 = degree_input(ctx, 'deg', n1)
        d2 = degree_input(ctx, 'bass', n2)
        if first is not None:
            ctx.add(z3.Or([z3.SubString(d1.e, 0, 1) == z3.StringVal(c) for c in first]))
        return dict(s=prefix + "(" + ("*" if star else "") + d1 + ")/" + d2)
    j = job_strings(None, build=build, name='template[%s(%s<deg:%d>)/<bass:%d>%s]' % (prefix, '*' if star else '', n1, n2, '' if first is None else ',first char in %r' % first))
    return j


def job_strings(L, build=None, name=None):
    if build is None:
        def build(ctx):
            return dict(s=ST.string_input(ctx, 's', L))

    def patches():
        return {'chord': {'CHORD_RE': ST.SymPattern(CH.CHORD_RE), 'str': ST.sym_str,
                          'QUALITIES': ST.SymDict(CH.QUALITIES), 'PITCH_CLASSES': ST.SymDict(CH.PITCH_CLASSES),
                          'SCALE_DEGREES': ST.SymDict(CH.SCALE_DEGREES), 'EXTENDED_QUALITY_REDUX': ST.SymDict(CH.EXTENDED_QUALITY_REDUX)}}

    def body(A, inp):
        s = inp['s']
        # --- validation
        st, v = A.call(CH.validate_chord_label, s)
        accepted = st == 'ok'
        A.require(st == 'ok' or isinstance(v, CH.InvalidChordException), 'validate:only-InvalidChordException', got=type(v).__name__)
        # --- split / join
        st_s, parts = A.call(CH.split, s)
        A.require(st_s == 'ok' or isinstance(parts, CH.InvalidChordException), 'split:only-InvalidChordException', got=type(parts).__name__)
        if not accepted:
            A.require(st_s == 'exc', 'split:rejects-what-validate-rejects')
        # --- encode, all flag settings
        encs = {}
        for red in (False, True):
            for strict in (False, True):
                st_e, e = A.call(CH.encode, s, red, strict)
                A.require(st_e == 'ok' or isinstance(e, CH.InvalidChordException), 'encode:only-InvalidChordException', got=type(e).__name__)
                encs[(red, strict)] = (st_e, e)
                if st_e == 'ok':
                    r, bm, b = _enc_tuple(e)
                    sentinel = (r, bm, b) in ((-1, [0] * 12, -1), (-1, [-1] * 12, -1))
                    inv = 0 <= r <= 11 and 0 <= b <= 11 and len(bm) == 12 and set(bm) <= {0, 1} and bm[b] == 1
                    A.require(sentinel or inv, 'encode:root,bitmap,bass-invariant', got=(r, bm, b))
        A.observe('accepted', accepted)
        A.observe('encodable', encs[(False, False)][0] == 'ok')
        if not accepted:
            for k, (st_e, e) in encs.items():
                A.require(st_e == 'exc', 'encode:rejects-what-validate-rejects')
            return
        # from here on the label has been decided by the table look-ups on most paths; make it concrete for the content check
        lab = s.conc() if A.sym else s
        A.require(bool(GRAMMAR_RE.match(lab)), 'validate:accepted=>documented-grammar', label=lab)
        for red in (False, True):
            ref = ref_encode(lab, red)
            st0, e0 = encs[(red, False)]
            st1, e1 = encs[(red, True)]
            if ref == 'invalid':
                A.require(st0 == 'exc' and st1 == 'exc', 'content:unencodable-label-raises', label=lab)
                continue
            A.require(st0 == 'ok', 'content:documented-label-is-encodable', label=lab)
            if st0 == 'ok':
                A.require(_enc_tuple(e0) == (ref[0], ref[1], ref[2]), 'content:encoding-equals-documented-tables', label=lab, got=_enc_tuple(e0), want=ref[:3])
            if lab not in ('N', 'X'):
                # strict_bass_intervals raises exactly when the bass interval is absent from the chord
                A.require((st1 == 'exc') == (not ref[3]), 'content:strict_bass_intervals-raises-iff-bass-absent', label=lab)
                if st1 == 'ok':
                    A.require(_enc_tuple(e1) == (ref[0], ref[1], ref[2]), 'content:strict-encoding-equals-documented-tables', label=lab)
        # --- split -> join -> encode round trip
        if st_s == 'ok':
            st_j, j = A.call(CH.join, *parts)
            A.require(st_j == 'ok' or isinstance(j, CH.InvalidChordException), 'join:only-InvalidChordException', got=type(j).__name__)
            st0, e0 = encs[(False, False)]
            if st_j == 'ok' and st0 == 'ok':
                st2, e2 = A.call(CH.encode, j)
                A.require(st2 == 'ok' and _enc_tuple(e2) == _enc_tuple(e0), 'roundtrip:encode(join(*split(s)))==encode(s)', label=lab)
            if st_j == 'exc' and st0 == 'ok' and lab not in ('N', 'X'):
                A.require(False, 'roundtrip:join-rejects-parts-of-an-encodable-label', label=lab)
        # --- encode_many agrees with encode
        st_m, em = A.call(CH.encode_many, [s, 'N'], False)
        st0, e0 = encs[(False, False)]
        A.require((st_m == 'ok') == (st0 == 'ok'), 'encode_many:same-acceptance-as-encode')
        if st_m == 'ok' and st0 == 'ok':
            A.require((int(em[0][0]), [int(x) for x in em[1][0]], int(em[2][0])) == _enc_tuple(e0), 'encode_many:same-encoding-as-encode')
    j = Job('C10', name or 'strings[length=%d]' % L, build, body, funcs=['chord.validate_chord_label', 'chord.split', 'chord.join', 'chord.encode',
                                                                     'chord.encode_many', 'chord.pitch_class_to_semitone', 'chord.scale_degree_to_semitone',
                                                                     'chord.scale_degree_to_bitmap', 'chord.quality_to_bitmap', 'chord.reduce_extended_quality'],
            bounds=dict(length=L, alphabet='code points 9..126') if L is not None else dict(template=name), lattice=0, timeout_s=3000, max_decisions=100000, exc_policy='body')
    j.extra_patches = patches()
    return j


def job_pool():
    """layer 3 on a concrete pool of grammar-derived labels longer than the symbolic bound"""
    pool = []
    for root in ('C', 'F#', 'Bb', 'Gbb'):
        for q in SHORTS.split('|'):
            pool.append('%s:%s' % (root, q))
    pool += ['A:min(b7)/b3', 'D:maj(*3,9)', 'E:(1,b3,5)', 'G:7(#9,b13)/5', 'C:sus4(b7,9)/4', 'B:hdim7/b5', 'Db:min7(*5)/b7', 'C:maj(13)', 'C/3', 'C/b7',
             'F:(3,5,b7)/b7', 'N', 'X', 'A:(*3)', 'C:maj/13', 'C:1/5', 'E#:9(*5)']

    def build(ctx):
        return dict(pool=pool)

    def body(A, inp):
        bad = []
        for lab in inp['pool']:
            for red in (False, True):
                ref = ref_encode(lab, red)
                st, e = A.call(CH.encode, lab, red, False)
                if ref == 'invalid':
                    if not (st == 'exc' and isinstance(e, CH.InvalidChordException)):
                        bad.append((lab, red, 'should be rejected'))
                elif st != 'ok' or _enc_tuple(e) != (ref[0], ref[1], ref[2]):
                    bad.append((lab, red, _enc_tuple(e) if st == 'ok' else repr(e), ref[:3]))
        A.observe('pool', len(inp['pool']))
        A.require(not bad, 'content:pool-encoding-equals-documented-tables', bad=bad[:3])
    return Job('C10', 'content-pool[%d labels]' % len(pool), build, body, funcs=['chord.encode'], bounds=dict(labels=len(pool)))


def jobs(tier):
    q = tier == 'quick'
    js = [job_language(), job_pool()]
    for L in ((0, 1, 2, 3) if q else (0, 1, 2, 3, 4, 5)):
        js.append(job_strings(L))
    # (degrees of three characters reach double accidentals, 'bb7', and accidentals on two-digit degrees, '#11')
    tmpl = [('C:maj', True, 1, 1), ('G#:', True, 1, 1), ('A:min7', False, 2, 1), ('C:maj', False, 3, 1)] if q else \
           [(p, st, a, b) for p in ('C:maj', 'G#:', 'A:min7', 'Eb:sus4', 'D:1', 'F:9', 'B:hdim7') for st in (True, False) for (a, b) in ((1, 1), (2, 1), (1, 2), (2, 2))] + \
           [('C:maj', False, 3, 1), ('D:min', True, 1, 3), ('A:min7', True, 3, 2), ('G#:', False, 2, 3), ('F:9', False, 3, 3)]
    for t in tmpl:
        if t[2] >= 3:
            # three-character degrees start with an accidental: one job per accidental
            js.append(job_template(*t, first='b'))
            js.append(job_template(*t, first='#'))
        else:
            js.append(job_template(*t))
    return js
