"""C11 - chord comparison rules form the documented lattice."""
import numpy as np
import z3

import mir_eval.chord as CH

from symx import core as S
from symx.harness import Job
from . import common as C

META = dict(
    explanation="The 12 real comparison functions of mir_eval.chord executed on *fully symbolic chord encodings* (root 0..11, 12 "
                "bitmap bits, bass, or the N / X sentinels) supplied through an encode_many stub constrained only by the encoding "
                "invariant; one validity query per path covers every pair of encodings.  Witnesses are turned back into real Harte "
                "labels (root:(degrees)/bass) and replayed through the unstubbed functions.",
    bounds="values: all encodings satisfying the invariant (about 12*2^11*12+2 per label), three labels per call (reference, two estimates); "
           "mirex: 6 symbolic bitmap positions per encoding per job, windows swept over the 12 semitones (np.nonzero forks per bit)",
    stubs=["chord.validate (no-op) and chord.encode_many (returns any triple satisfying Inv: root in 0..11, bits in {0,1}, "
           "bitmap[bass]=1; N=(-1,0^12,-1); X=(-1,(-1)^12,-1)); Inv itself is an obligation of C10 on the real encode; with "
           "reduce_extended_chords=True the stub returns a second, independent bitmap that contains the plain one (degrees above the octave folded in)"],
    assumptions=["every Inv-satisfying encoding is produced by a real label (constructive: the replay builds that label)"],
)

RULES = ['thirds', 'thirds_inv', 'triads', 'triads_inv', 'tetrads', 'tetrads_inv', 'root', 'majmin', 'majmin_inv', 'sevenths',
         'sevenths_inv']
IMPL = [('tetrads_inv', 'tetrads'), ('tetrads', 'triads'), ('triads', 'thirds'), ('thirds', 'root'), ('thirds_inv', 'thirds'),
        ('triads_inv', 'triads'), ('majmin_inv', 'majmin'), ('sevenths_inv', 'sevenths'), ('majmin', 'triads'),
        ('sevenths', 'tetrads')]

ROOTS = ['C', 'C#', 'D', 'Eb', 'E', 'F', 'F#', 'G', 'Ab', 'A', 'Bb', 'B']
DEGS = ['1', 'b2', '2', 'b3', '3', '4', 'b5', '5', 'b6', '6', 'b7', '7']
XDEGS = ['8', 'b9', '9', '#9', '10', '11', '#11', '12', 'b13', '13', '#13', '##13']      # semitones 12..23
Q = {k: list(v) for k, v in CH.QUALITIES.items()}

_TABLE = {}


def _stub_validate(a, b):
    return None


def _stub_encode_many(labels, reduce_extended_chords=False):
    """every label has two bitmaps: the plain one and the one with extended degrees (9, 11, 13 ...) folded into the octave"""
    roots, bms, basses = [], [], []
    for l in labels:
        r, bm, b, xbm = _TABLE[l]
        roots.append(r)
        bms.append(list(xbm if reduce_extended_chords else bm))
        basses.append(b)
    return S.array(roots), S.array(bms), S.array(basses)


PATCH = {'chord': {'validate': _stub_validate, 'encode_many': _stub_encode_many}}


def sym_encoding(ctx, name, fixed_bits=None):
    """fixed_bits: dict position -> 0/1 for concrete bitmap positions (mirex windows)."""
    root = ctx.integer(name + '_root')
    bass = ctx.integer(name + '_bass')
    kind = ctx.integer(name + '_kind')       # 0 regular, 1 N, 2 X
    bits = []
    xbits = []
    for i in range(12):
        bits.append(ctx.integer('%s_b%d' % (name, i)))
        # the bitmap under reduce_extended_chords=True: the plain bitmap plus any pitch classes contributed by degrees above the octave
        xbits.append(ctx.integer('%s_x%d' % (name, i)))
    c = ctx
    c.assume(kind >= 0)
    c.assume(kind <= 2)
    reg = kind == 0
    inv = [root >= 0, root <= 11, bass >= 0, bass <= 11]      # the root's own bit may be 0 (omission '*1')
    for i in range(12):
        if fixed_bits is not None and i in fixed_bits:
            inv.append(bits[i] == fixed_bits[i])
        else:
            inv.append(S._lor(bits[i] == 0, bits[i] == 1))
    for i in range(12):
        inv.append(S._lor(xbits[i] == 1, S._land(xbits[i] == 0, bits[i] == 0)))
    anyb = False
    for i in range(12):
        anyb = S._lor(anyb, S._land(bass == i, bits[i] == 1))
    inv.append(anyb)
    allinv = True
    for x in inv:
        allinv = S._land(allinv, x)
    c.assume(S._lor(S._lnot(reg), allinv))
    isN = True
    isX = True
    for x in [root == -1, bass == -1]:
        isN = S._land(isN, x)
        isX = S._land(isX, x)
    for b in bits + xbits:
        isN = S._land(isN, b == 0)
        isX = S._land(isX, b == -1)
    c.assume(S._lor(S._lnot(kind == 1), isN))
    c.assume(S._lor(S._lnot(kind == 2), isX))
    return dict(root=root, bits=bits, bass=bass, kind=kind, xbits=xbits)


def label_of(enc):
    """a real Harte label whose encoding is `enc` (concrete)."""
    k = int(enc['kind'])
    if k == 1:
        return 'N'
    if k == 2:
        return 'X'
    degs = [DEGS[i] for i in range(1, 12) if int(enc['bits'][i]) == 1]
    # pitch classes present only under reduce_extended_chords: written as degrees above the octave
    xb = enc.get('xbits') or enc['bits']
    degs += [XDEGS[i] for i in range(12) if int(xb[i]) == 1 and int(enc['bits'][i]) == 0]
    b = int(enc['bass'])
    if int(enc['bits'][0]) == 1:
        lab = ROOTS[int(enc['root'])] + ':(' + ','.join(['1'] + degs) + ')'
    else:
        # root omitted: needs a quality shorthand ('1' = root only) and the omission '*1'
        lab = ROOTS[int(enc['root'])] + ':1(' + ','.join(['*1'] + degs) + ')'
    if b != 0:
        lab += '/' + DEGS[b]
    return lab


def _labels(A, encs):
    if A.sym:
        out = []
        for i, e in enumerate(encs):
            tok = 'ENC%d' % i
            _TABLE[tok] = (e['root'], e['bits'], e['bass'], e['xbits'])
            out.append(tok)
        return out
    return [label_of(e) for e in encs]


def _pref8(A, enc, quality):
    c = True
    for i in range(8):
        c = A.And(c, A.xeq(enc['bits'][i], Q[quality][i]))
    return c


def _full(A, enc, quality):
    c = True
    for i in range(12):
        c = A.And(c, A.xeq(enc['bits'][i], Q[quality][i]))
    return c


def job_lattice(with_mirex=False, window=None):
    fixed = None
    if with_mirex:
        # positions outside the window get a concrete pattern (major triad tones set when outside the window)
        fixed = {i: (1 if i in (0, 4, 7) else 0) for i in range(12) if i not in window}

    def build(ctx):
        fixed2 = None
        if with_mirex:
            fixed2 = dict(fixed)
            for i in window[2:]:
                fixed2[i] = 0          # second estimate: only the first two window positions stay symbolic
        return dict(r=sym_encoding(ctx, 'r', fixed), e1=sym_encoding(ctx, 'e1', fixed), e2=sym_encoding(ctx, 'e2', fixed2))

    def body(A, inp):
        r, e1, e2 = inp['r'], inp['e1'], inp['e2']
        refs = _labels(A, [r, r, r])
        ests = _labels(A, [e1, e2, r])
        # in symbolic mode both lists index the same table: re-register with distinct tokens
        if A.sym:
            _TABLE.clear()
            for tok, e in (('R', r), ('E1', e1), ('E2', e2)):
                _TABLE[tok] = (e['root'], e['bits'], e['bass'], e['xbits'])
            refs, ests = ['R', 'R', 'R'], ['E1', 'E2', 'R']
        out = {}
        rules = ['tetrads', 'mirex'] if with_mirex else RULES
        for f in rules:
            v = getattr(CH, f)(refs, ests)
            out[f] = v
            A.observe(f, v)
        isN = A.xeq(r['kind'], 1)
        isX = A.xeq(r['kind'], 2)
        for f in rules:
            v = out[f]
            tri = True
            for k in range(3):
                tri = A.And(tri, A.Or(A.xeq(v[k], 1), A.xeq(v[k], 0), A.xeq(v[k], -1)))
            A.require(tri, '%s:value-in-{1,0,-1}' % f)
            A.require(A.Iff(A.xeq(v[0], -1), A.xeq(v[1], -1)), '%s:-1-depends-on-reference-only' % f)
            A.require(A.Not(A.xeq(v[2], 0)), '%s:self-comparison-never-0' % f)
            A.require(A.Implies(isX, A.xeq(v[0], -1)), '%s:X-reference-ignored' % f)
        if with_mirex:
            A.require(A.Implies(A.xeq(out['tetrads'][0], 1), A.Not(A.xeq(out['mirex'][0], 0))), 'implies:tetrads=>mirex-not-0')
            return
        for a, b in IMPL:
            A.require(A.Implies(A.xeq(out[a][0], 1), A.xeq(out[b][0], 1)), 'implies:%s=>%s' % (a, b))
        # vocabularies
        mm = A.Or(isN, A.And(A.xeq(r['kind'], 0), A.Or(_pref8(A, r, 'maj'), _pref8(A, r, 'min'))))
        A.require(A.Iff(A.Not(A.xeq(out['majmin'][0], -1)), mm), 'majmin:vocabulary')
        sv = A.Or(isN, A.And(A.xeq(r['kind'], 0), A.Or(*[_full(A, r, q) for q in ('maj', 'min', 'maj7', '7', 'min7')])))
        A.require(A.Iff(A.Not(A.xeq(out['sevenths'][0], -1)), sv), 'sevenths:vocabulary')
        # *_inv: same vocabulary, bass must be a chord tone of the reference bitmap (always true under Inv, N has no bass)
        bass_tone = isN
        for i in range(12):
            bass_tone = A.Or(bass_tone, A.And(A.xeq(r['bass'], i), A.xeq(r['bits'][i], 1)))
        for f, voc in (('majmin_inv', mm), ('sevenths_inv', sv)):
            want = A.And(voc, bass_tone)
            A.require(A.Iff(A.Not(A.xeq(out[f][0], -1)), want), '%s:vocabulary' % f)
    nm = 'lattice[11 rules]' if not with_mirex else 'lattice+mirex[bits %s symbolic]' % (','.join(map(str, window)))
    return Job('C11', nm, build, body, extra_patches=PATCH, funcs=['chord.' + f for f in RULES + ['mirex', 'rotate_bitmaps_to_roots']],
               bounds=dict(labels_per_call=3, symbolic_bits='all 12' if not with_mirex else window), timeout_s=3600, max_decisions=200000)


def job_real_labels():
    """ties the stubbed lattice to the real encoder on a concrete pool of labels (all shorthands, with/without bass, N, X):
    every real encoding satisfies Inv, and label_of(encode(l)) encodes back to the same triple."""
    pool = ['N', 'X', 'C:maj(*1)', 'D:min7(*1)/b3'] + ['%s:%s' % (rt, q) for rt in ('C', 'F#', 'Bb') for q in CH.QUALITIES if q and q[0] not in 'b#'] + ['G', 'A:min/b3', 'D:maj/5', 'E:7/b7',
                                                                                                        'C:maj(9)', 'C:(1,5)', 'Db:sus4(b7)/4']

    def build(ctx):
        return dict(pool=pool)

    def body(A, inp):
        ok = True
        rt = True
        for l in inp['pool']:
            root, bm, bass = CH.encode(l)
            bm = [int(x) for x in bm]
            if l == 'N':
                ok = ok and (root, bm, bass) == (-1, [0] * 12, -1)
            elif l == 'X':
                ok = ok and (root, bm, bass) == (-1, [-1] * 12, -1)
            else:
                bmx = [int(x) for x in CH.encode(l, True)[1]]
                ok = ok and 0 <= root <= 11 and 0 <= bass <= 11 and bm[bass] == 1 and set(bm) <= {0, 1}
                # the bitmap under reduce_extended_chords contains the plain one
                ok = ok and set(bmx) <= {0, 1} and all(x >= y for x, y in zip(bmx, bm))
                enc = dict(kind=0, root=root, bits=bm, bass=bass, xbits=bmx)
                r2, bm2, b2 = CH.encode(label_of(enc))
                bmx2 = [int(x) for x in CH.encode(label_of(enc), True)[1]]
                rt = rt and (r2, [int(x) for x in bm2], b2) == (root, bm, bass) and bmx2 == bmx
        A.observe('n', len(inp['pool']))
        A.require(ok, 'real-encode:Inv-on-label-pool')
        A.require(rt, 'real-encode:label_of-round-trip')
    return Job('C11', 'real-labels-satisfy-Inv', build, body, funcs=['chord.encode'], bounds=dict(pool=len(pool)))


def jobs(tier):
    q = tier == 'quick'
    js = [job_lattice(), job_real_labels()]
    wins = [(3, 4), (7, 10), (4, 7)] if q else [(1, 2, 3, 4), (5, 6, 7, 8), (8, 9, 10, 11), (3, 4, 7, 10), (2, 5, 9, 11), (0, 4, 7, 11)]
    for w in wins:
        js.append(job_lattice(True, w))
    return js
