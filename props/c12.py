"""C12 - interval scores are duration-weighted and blind to how time is cut up."""
import numpy as np
import z3

import mir_eval.chord as CH
import mir_eval.segment as SEG
import mir_eval.hierarchy as HIER

from symx import core as S
from symx.harness import Job
from . import common as C
from . import tasks as T
from . import evals as E

META = dict(
    explanation="weighted_accuracy on symbolic comparisons in {-1,0,1} and symbolic weights: equals sum(w_i c_i)/sum(w_i) over comparable entries, is "
                "invariant under a symbolic positive rescaling of the weights, 1 / 0 when every comparable comparison is 1 / 0.  Refinement: an "
                "annotation A and A' = A with one interval cut at a symbolic interior instant (same label) are scored on the same path against B by "
                "the real chord.evaluate (all 15 entries), the six frame-based segment metrics and hierarchy.lmeasure; z3 shows equal results.",
    bounds="weights/comparisons n <= 3 (quick) / 4; chord.evaluate <=2+2 intervals before the cut, label pool of 7; segment metrics <=2+2 segments, frame 0.5, "
           "span <= 2 s; hierarchy 2 levels",
    stubs=["as C01"],
    assumptions=[],
)


def job_weighted_accuracy(n):
    def build(ctx):
        d = T.b_weighted_accuracy(ctx, (n,))
        lam = T.posreal(ctx, 'lambda', 1000)
        c, w = d['ref'][0], d['est'][0]
        tot = 0
        for i in range(n):
            tot = tot + w[i]
        ctx.assume(tot > 0)
        return dict(c=c, w=w, lam=lam)

    def body(A, inp):
        c, w, lam = inp['c'], inp['w'], inp['lam']
        c = np.asarray(c, dtype=float) if not A.sym else c
        a1 = CH.weighted_accuracy(c, w)
        a2 = CH.weighted_accuracy(c, w * lam)
        A.observe('acc', a1)
        A.observe('acc_scaled', a2)
        A.require(A.eq(a1, a2), 'weighted_accuracy:invariant-to-weight-rescaling')
        # definition
        num, den = 0, 0
        allone, allzero = True, True
        anyc = False
        for i in range(n):
            comp = A.xge(c[i], 0)
            if A.sym:
                num = num + S.SymNum(z3.If(S._zb(comp), S._z(w[i] * c[i]), z3.RealVal(0)))
                den = den + S.SymNum(z3.If(S._zb(comp), S._z(w[i]), z3.RealVal(0)))
            else:
                num += float(w[i] * c[i]) if comp else 0.0
                den += float(w[i]) if comp else 0.0
            allone = A.And(allone, A.Or(A.Not(comp), A.xeq(c[i], 1)))
            allzero = A.And(allzero, A.Or(A.Not(comp), A.xeq(c[i], 0)))
            anyc = A.Or(anyc, comp)
        positive = A.xgt(den, 0)
        A.require(A.Implies(positive, A.eq(a1 * den, num) if A.sym else abs(a1 * den - num) <= 1e-9 * max(1.0, abs(num))), 'weighted_accuracy==duration-weighted-mean')
        A.require(A.Implies(A.And(positive, allone), A.eq(a1, 1)), 'weighted_accuracy:all-ones=>1')
        A.require(A.Implies(A.And(positive, allzero), A.eq(a1, 0)), 'weighted_accuracy:all-zeros=>0')
        A.require(A.Implies(A.Not(positive), A.eq(a1, 0)), 'weighted_accuracy:nothing-comparable=>0')
    return Job('C12', 'weighted_accuracy[n=%d]' % n, build, body, funcs=['chord.weighted_accuracy'], bounds=dict(n=n), timeout_s=1500)


def cut(iv, labels, j, tau):
    """split interval j of (iv, labels) at tau (strictly inside)"""
    rows = []
    labs = []
    for i in range(len(labels)):
        if i == j:
            rows.append([iv[i, 0], tau])
            rows.append([tau, iv[i, 1]])
            labs += [labels[i], labels[i]]
        else:
            rows.append([iv[i, 0], iv[i, 1]])
            labs.append(labels[i])
    if isinstance(iv, S.SymArray):
        return S.array(rows), labs
    return np.array(rows, dtype=float), labs


def job_chord_refinement(size, side, j, pieces=2, span=None):
    """span: if given, the reference annotation spans exactly `span` seconds (keeps the normaliser of the duration-weighted
    mean linear for the larger configurations; the start stays symbolic)"""
    ev = E.by_task('chord')

    def build(ctx):
        inp = ev.build(ctx, size)
        ri, rl, ei, el = inp['args']
        if span is not None:
            ctx.assume(S._b_cmp('eq')(ri[len(rl) - 1, 1], ri[0, 0] + span))
        iv = ri if side == 'ref' else ei
        taus = [ctx.real('tau%d' % k) for k in range(pieces - 1)]
        prev = iv[j, 0]
        for t in taus:
            ctx.assume(t > prev)
            prev = t
        ctx.assume(prev < iv[j, 1])
        inp['taus'] = taus
        return inp

    def cutn(iv, labels, taus):
        # cut interval j into len(taus)+1 pieces carrying the same label (cuts applied right to left keep index j valid)
        for t in list(taus)[::-1]:
            iv, labels = cut(iv, labels, j, t)
        return iv, labels

    def body(A, inp):
        ri, rl, ei, el = inp['args']
        s1 = ev.call(dict(args=(ri.copy(), list(rl), ei.copy(), list(el)), kw={}))
        # (the uncut call returned: the cut one must return as well)
        if side == 'ref':
            ri2, rl2 = cutn(ri, rl, inp['taus'])
            st, s2 = A.call(lambda: ev.call(dict(args=(ri2, rl2, ei.copy(), list(el)), kw={})))
        else:
            ei2, el2 = cutn(ei, el, inp['taus'])
            st, s2 = A.call(lambda: ev.call(dict(args=(ri.copy(), list(rl), ei2, el2), kw={})))
        A.require(st == 'ok', 'chord.evaluate:cut-annotation-is-still-scored', got=repr(s2)[:120] if st != 'ok' else None)
        if st != 'ok':
            return
        for k in s1:
            A.observe(k, s1[k])
            A.require(A.eq(s1[k], s2[k]), 'chord.evaluate[%s]:unchanged-by-cutting-an-interval' % k)
    return Job('C12', 'chord.evaluate[%s,cut %s interval %d into %d%s]' % ('x'.join(map(str, size)), side, j, pieces, '' if span is None else ',ref span %s s' % span),
               build, body, funcs=ev.funcs, bounds=dict(size=size, reference_span=span or 'symbolic'), timeout_s=2400)


def job_segment_refinement(n, m, rl, el, side, j, fs=0.5, maxT=2.0):
    b = T.b_structure(fs, maxT, rl, el)

    def build(ctx):
        inp = b(ctx, (n, m))
        iv = inp['ref'][0] if side == 'ref' else inp['est'][0]
        tau = ctx.gridnum('tau', 100000)
        ctx.assume(tau > iv[j, 0])
        ctx.assume(tau < iv[j, 1])
        inp['tau'] = tau
        return inp

    def body(A, inp):
        ri, rlab = inp['ref']
        ei, elab = inp['est']
        if side == 'ref':
            ri2, rlab2 = cut(ri, rlab, j, inp['tau'])
            ei2, elab2 = ei, elab
        else:
            ri2, rlab2 = ri, rlab
            ei2, elab2 = cut(ei, elab, j, inp['tau'])
        for nm, fn in (('pairwise', SEG.pairwise), ('rand_index', SEG.rand_index), ('ari', SEG.ari), ('mutual_information', SEG.mutual_information),
                       ('nce', SEG.nce), ('vmeasure', SEG.vmeasure)):
            r1 = T.flat(fn(ri, list(rlab), ei, list(elab), frame_size=fs))
            r2 = T.flat(fn(ri2, list(rlab2), ei2, list(elab2), frame_size=fs))
            for i, (a, b_) in enumerate(zip(r1, r2)):
                A.observe('%s[%d]' % (nm, i), a)
                A.require(A.eq(a, b_), 'segment.%s[%d]:unchanged-by-cutting-a-segment' % (nm, i))
    return Job('C12', 'segment metrics[%s|%s,cut %s segment %d]' % (''.join(rl), ''.join(el), side, j), build, body,
               funcs=['segment.pairwise', 'segment.rand_index', 'segment.ari', 'segment.mutual_information', 'segment.nce', 'segment.vmeasure',
                      'util.intervals_to_samples'], bounds=dict(ref=n, est=m), exact_floats=False, timeout_s=2400)


def job_hier_refinement(fs=0.5, maxT=2.0):
    b = T.b_hier(2, fs, maxT, labels='repeat')

    def build(ctx):
        inp = b(ctx, (2, 2))
        iv = inp['ref'][0][1]
        tau = ctx.gridnum('tau', 100000)
        ctx.assume(tau > iv[0, 0])
        ctx.assume(tau < iv[0, 1])
        inp['tau'] = tau
        return inp

    def body(A, inp):
        rh, rl = inp['ref']
        eh, el = inp['est']
        r1 = HIER.lmeasure(rh, rl, eh, el, **inp['kw'])
        iv2, lab2 = cut(rh[1], rl[1], 0, inp['tau'])
        r2 = HIER.lmeasure([rh[0], iv2], [rl[0], lab2], eh, el, **inp['kw'])
        for nm, a, b_ in zip(('P', 'R', 'F'), r1, r2):
            A.observe(nm, a)
            A.require(A.eq(a, b_), 'hierarchy.lmeasure.%s:unchanged-by-cutting-a-segment' % nm)
    return Job('C12', 'hierarchy.lmeasure[cut a level-2 reference segment]', build, body, funcs=['hierarchy.lmeasure', 'hierarchy._meet'],
               exact_floats=False, timeout_s=2400)


def jobs(tier):
    q = tier == 'quick'
    js = [job_weighted_accuracy(n) for n in ((1, 2, 3) if q else (1, 2, 3, 4))]
    for (size, side, j) in ([((1, 1), 'ref', 0), ((2, 1), 'est', 0), ((1, 2), 'ref', 0)] if q else
                            [((1, 1), 'ref', 0), ((1, 1), 'est', 0), ((2, 1), 'est', 0), ((1, 2), 'ref', 0), ((1, 2), 'est', 1),
                             ((2, 2), 'ref', 0), ((2, 2), 'est', 1)]):
        js.append(job_chord_refinement(size, side, j))
    for (size, side, j, k) in ([((2, 1), 'ref', 0, 3)] if q else [((2, 1), 'ref', 0, 3), ((1, 2), 'est', 1, 3), ((1, 1), 'ref', 0, 4)]):
        js.append(job_chord_refinement(size, side, j, k))
    if not q:
        # configurations whose general form (symbolic reference span) the solver does not decide within the limits
        for (size, side, j, k) in [((2, 1), 'ref', 1, 2), ((2, 2), 'est', 0, 3), ((3, 2), 'ref', 1, 2), ((2, 3), 'est', 2, 2)]:
            js.append(job_chord_refinement(size, side, j, k, span=4))
    for (n, m, rl, el, side, j) in ([(1, 1, ['a'], ['A'], 'ref', 0), (2, 2, ['a', 'b'], ['x', 'y'], 'est', 1), (2, 1, ['a', 'b'], ['x'], 'ref', 0)] if q else
                                    [(1, 1, ['a'], ['A'], 'ref', 0), (2, 2, ['a', 'b'], ['x', 'y'], 'est', 1), (2, 1, ['a', 'b'], ['x'], 'ref', 0),
                                     (2, 2, ['a', 'a'], ['x', 'y'], 'ref', 1), (2, 2, ['a', 'b'], ['b', 'a'], 'ref', 0), (3, 2, ['a', 'b', 'a'], ['x', 'y'], 'ref', 1)]):
        js.append(job_segment_refinement(n, m, rl, el, side, j))
    js.append(job_hier_refinement())
    return js
