"""C13 - interval pre-processing preserves the annotation it re-expresses."""
import numpy as np
import z3

import mir_eval.util as U

from symx import core as S
from symx.harness import Job
from . import common as C

META = dict(
    explanation="util.adjust_intervals / adjust_events / merge_labeled_intervals / interpolate_intervals / intervals_to_samples / "
                "boundaries_to_intervals / intervals_to_boundaries / sort_labeled_intervals executed symbolically on symbolic boundaries; "
                "the oracle is the labelling-function definition with a universally quantified instant t (a free solver variable).",
    bounds="<=3 input intervals (quick) / <=4 (thorough), possibly gapped, t_min/t_max anywhere incl. None; <=3 / <=5 sample points; "
           "sample grids <=4 / <=8 frames; values unbounded reals",
    stubs=[],
    assumptions=["compare-only code: finite floats and reals are order-isomorphic, verdicts transfer to all finite float inputs",
                 "a gap that becomes terminal after cropping may carry the fill label (weakest reading of the statement)"],
)

START, END = "__T_MIN", "__T_MAX"


def ordered_intervals(ctx, name, n, gaps=True, lo=0):
    rows = []
    prev = None
    for i in range(n):
        a = ctx.real("%s_s%d" % (name, i))
        b = ctx.real("%s_e%d" % (name, i))
        ctx.assume(a >= lo)
        ctx.assume(b > a)
        if prev is not None:
            ctx.assume(a >= prev if gaps else a == prev)
        prev = b
        rows.append([a, b])
    return S.array(rows) if n else C.empty2()


def _probe_points(*arrs):
    pts = set()
    for a in arrs:
        for v in np.asarray(a, dtype=float).reshape(-1):
            pts.add(float(v))
    pts = sorted(pts)
    out = list(pts)
    for x, y in zip(pts, pts[1:]):
        out.append((x + y) / 2)
    if pts:
        out += [pts[0] - 1.0, pts[-1] + 1.0]
    return out


def _forall_t(A, name, cond_fn, probes):
    """cond_fn(t) must hold for every instant t.  Symbolic: t is a fresh free variable
    (validity query).  Concrete: t ranges over all boundaries and midpoints."""
    if A.sym:
        c = S.cur()
        t = SymT(c)
        return cond_fn(t)
    ok = True
    for p in probes:
        ok = ok and bool(cond_fn(p))
    return ok


def SymT(c):
    return S.SymNum(c.fresh_real("t"))


def _in(A, t, a, b):
    return A.And(A.xle(a, t), A.xlt(t, b))


# ---------------------------------------------------------------- adjust_intervals

def job_adjust_intervals(n, tmin_mode, tmax_mode, with_labels=True):
    def build(ctx):
        iv = ordered_intervals(ctx, 'i', n)
        d = dict(iv=iv)
        if tmin_mode == 'sym':
            d['t_min'] = ctx.real('t_min')
            ctx.assume(d['t_min'] >= 0)
        elif tmin_mode == 'zero':
            d['t_min'] = 0.0
        else:
            d['t_min'] = None
        if tmax_mode == 'sym':
            d['t_max'] = ctx.real('t_max')
            if d['t_min'] is not None:
                ctx.assume(d['t_max'] > d['t_min'])
            else:
                ctx.assume(d['t_max'] > 0)
        else:
            d['t_max'] = None
        return d

    def body(A, inp):
        iv, t_min, t_max = inp['iv'], inp['t_min'], inp['t_max']
        labels = ["L%d" % i for i in range(n)] if with_labels else None
        kw = {}
        out, out_labels = U.adjust_intervals(iv, labels=list(labels) if labels is not None else None, t_min=t_min, t_max=t_max)
        m = len(out)
        A.observe('n_out', m)
        A.observe('out', out)
        A.observe('labels', out_labels)
        A.require(m >= 1, 'adjust_intervals:nonempty')
        if with_labels:
            A.require(len(out_labels) == m, 'adjust_intervals:labels-match-intervals')
        pos = True
        inside = True
        for j in range(m):
            pos = A.And(pos, A.xlt(out[j, 0], out[j, 1]))
            if t_min is not None:
                inside = A.And(inside, A.xge(out[j, 0], t_min))
            if t_max is not None:
                inside = A.And(inside, A.xle(out[j, 1], t_max))
        A.require(pos, 'adjust_intervals:positive-durations')
        A.require(inside, 'adjust_intervals:within-range')
        lo = t_min if t_min is not None else iv[0, 0]
        hi = t_max if t_max is not None else iv[n - 1, 1]
        if m:
            A.require(A.xeq(out[0, 0], lo), 'adjust_intervals:starts-at-t_min')
            A.require(A.xeq(out[m - 1, 1], hi), 'adjust_intervals:ends-at-t_max')
        if not with_labels:
            return

        # labelling function of the input at instant t
        def lab_in_is(t, L):
            c = False
            for i in range(n):
                if labels[i] == L:
                    c = A.Or(c, _in(A, t, iv[i, 0], iv[i, 1]))
            if L == START:
                c = A.Or(c, A.xlt(t, iv[0, 0]))
            if L == END:
                c = A.Or(c, A.xge(t, iv[n - 1, 1]))
            return c

        def in_some_input(t):
            c = False
            for i in range(n):
                c = A.Or(c, _in(A, t, iv[i, 0], iv[i, 1]))
            return c

        def in_gap(t):
            return A.And(A.Not(in_some_input(t)), A.xge(t, iv[0, 0]),
                         A.xlt(t, iv[n - 1, 1]))

        def terminal_right(t):
            # no input interval begins after t and before hi
            c = True
            for i in range(n):
                later = A.And(A.xlt(t, iv[i, 0]), A.xlt(iv[i, 0], hi))
                c = A.And(c, A.Not(later))
            return c

        def terminal_left(t):
            c = True
            for i in range(n):
                earlier = A.And(A.xle(iv[i, 1], t), A.xlt(lo, iv[i, 1]))
                c = A.And(c, A.Not(earlier))
            return c

        def label_ok(t):
            dom = _in(A, t, lo, hi)
            ok = True
            for j in range(m):
                L = out_labels[j]
                here = _in(A, t, out[j, 0], out[j, 1])
                allowed = lab_in_is(t, L)
                if L == END:
                    allowed = A.Or(allowed, A.And(in_gap(t), terminal_right(t)))
                if L == START:
                    allowed = A.Or(allowed, A.And(in_gap(t), terminal_left(t)))
                ok = A.And(ok, A.Implies(here, allowed))
            return A.Implies(dom, ok)

        def covered(t):
            dom = _in(A, t, lo, hi)
            some = False
            for j in range(m):
                some = A.Or(some, _in(A, t, out[j, 0], out[j, 1]))
            return A.Implies(A.And(dom, A.Not(in_gap(t))), some)

        probes = _probe_points(iv, out, [x for x in (t_min, t_max) if x is not None]) if not A.sym else None
        A.require(_forall_t(A, 't', label_ok, probes), 'adjust_intervals:labels-preserved')
        A.require(_forall_t(A, 't', covered, probes), 'adjust_intervals:range-covered')

    return Job('C13', 'adjust_intervals[n=%d,t_min=%s,t_max=%s,labels=%s]' % (n, tmin_mode, tmax_mode, with_labels), build, body,
               funcs=['util.adjust_intervals'], bounds=dict(intervals=n))


# ---------------------------------------------------------------- adjust_events

def job_adjust_events(n):
    def build(ctx):
        ev = C.events(ctx, 'e', n, strict=True)
        t_min = ctx.real('t_min')
        t_max = ctx.real('t_max')
        ctx.assume(t_min >= 0)
        ctx.assume(t_max > t_min)
        # the statement does not speak about adjust_events; the oracle is limited to ranges that
        # overlap the events (at least one event inside [t_min, t_max])
        some = False
        for i in range(n):
            some = S._lor(some, S._land(ev[i] >= t_min, ev[i] <= t_max))
        ctx.assume(some)
        return dict(ev=ev, t_min=t_min, t_max=t_max)

    def body(A, inp):
        ev, t_min, t_max = inp['ev'], inp['t_min'], inp['t_max']
        labels = ["L%d" % i for i in range(n)]
        out, ol = U.adjust_events(ev, list(labels), t_min, t_max)
        m = len(out)
        A.observe('out', out)
        A.observe('labels', ol)
        A.require(len(ol) == m and m >= 2, 'adjust_events:shape')
        A.require(A.And(A.xeq(out[0], t_min), A.xeq(out[m - 1], t_max)), 'adjust_events:spans-range')
        inc = True
        for j in range(m - 1):
            inc = A.And(inc, A.xlt(out[j], out[j + 1]))
        A.require(inc, 'adjust_events:increasing')
        # every in-range input event is kept with its label; every output is an input event or a range end
        kept = True
        for i in range(n):
            inr = A.And(A.xge(ev[i], t_min), A.xle(ev[i], t_max))
            some = False
            for j in range(m):
                if ol[j] == labels[i]:
                    some = A.Or(some, A.xeq(out[j], ev[i]))
            kept = A.And(kept, A.Implies(inr, some))
        A.require(kept, 'adjust_events:in-range-events-kept')
        src = True
        for j in range(m):
            c = False
            if ol[j] == '__T_MIN':
                c = A.xeq(out[j], t_min)
            elif ol[j] == '__T_MAX':
                c = A.xeq(out[j], t_max)
            else:
                i = labels.index(ol[j])
                c = A.xeq(out[j], ev[i])
            src = A.And(src, c)
        A.require(src, 'adjust_events:outputs-from-input')
    return Job('C13', 'adjust_events[n=%d]' % n, build, body, funcs=['util.adjust_events'], bounds=dict(events=n))


# ---------------------------------------------------------------- merge_labeled_intervals

def job_merge(nx, ny):
    def build(ctx):
        T = ctx.real('T')
        ctx.assume(T > 0)
        t0 = ctx.real('t0')
        ctx.assume(t0 >= 0)
        ctx.assume(T > t0)
        x, xb = C.contiguous_intervals(ctx, 'x', nx, start=t0, end=T)
        y, yb = C.contiguous_intervals(ctx, 'y', ny, start=t0, end=T)
        return dict(x=x, y=y)

    def body(A, inp):
        x, y = inp['x'], inp['y']
        xl = ["X%d" % i for i in range(nx)]
        yl = ["Y%d" % i for i in range(ny)]
        out, oxl, oyl = U.merge_labeled_intervals(x, list(xl), y, list(yl))
        m = len(out)
        A.observe('out', out)
        A.observe('xl', oxl)
        A.observe('yl', oyl)
        A.require(len(oxl) == m and len(oyl) == m and m >= 1, 'merge:shape')
        pos = True
        contig = True
        for j in range(m):
            pos = A.And(pos, A.xlt(out[j, 0], out[j, 1]))
            if j:
                contig = A.And(contig, A.xeq(out[j, 0], out[j - 1, 1]))
        A.require(pos, 'merge:positive-durations')
        A.require(contig, 'merge:contiguous')
        A.require(A.And(A.xeq(out[0, 0], x[0, 0]), A.xeq(out[m - 1, 1], x[nx - 1, 1])), 'merge:span-conserved')
        # common refinement: every input boundary is an output boundary
        ref = True
        for arr, k in ((x, nx), (y, ny)):
            for i in range(k):
                some = False
                for j in range(m):
                    some = A.Or(some, A.xeq(out[j, 0], arr[i, 0]))
                ref = A.And(ref, some)
        A.require(ref, 'merge:refines-both')
        # no output interval straddles an input boundary & labels are those of the containing input interval

        def lab_ok(t):
            ok = True
            for j in range(m):
                here = _in(A, t, out[j, 0], out[j, 1])
                cx = False
                for i in range(nx):
                    if xl[i] == oxl[j]:
                        cx = A.Or(cx, _in(A, t, x[i, 0], x[i, 1]))
                cy = False
                for i in range(ny):
                    if yl[i] == oyl[j]:
                        cy = A.Or(cy, _in(A, t, y[i, 0], y[i, 1]))
                ok = A.And(ok, A.Implies(here, A.And(cx, cy)))
            return ok
        probes = _probe_points(x, y, out) if not A.sym else None
        A.require(_forall_t(A, 't', lab_ok, probes), 'merge:labels-preserved')
    return Job('C13', 'merge_labeled_intervals[%d+%d]' % (nx, ny), build, body, funcs=['util.merge_labeled_intervals'],
               bounds=dict(x=nx, y=ny))


# ---------------------------------------------------------------- interpolate_intervals

def job_interpolate(n, npts):
    def build(ctx):
        iv = ordered_intervals(ctx, 'i', n)
        pts = C.events(ctx, 'p', npts, lo=-5)
        return dict(iv=iv, pts=pts)

    def body(A, inp):
        iv, pts = inp['iv'], inp['pts']
        labels = ["L%d" % i for i in range(n)]
        got = U.interpolate_intervals(iv, labels, pts if not A.sym else pts, fill_value='FILL')
        A.observe('labels', got)
        A.require(len(got) == npts, 'interpolate:length')
        ok = True
        for k in range(npts):
            p = pts[k]
            # definition: label of the last interval (in time order) whose closed span contains p, fill if none
            inside = [A.And(A.xle(iv[i, 0], p), A.xle(p, iv[i, 1])) for i in range(n)]
            if got[k] == 'FILL':
                c = True
                for i in range(n):
                    c = A.And(c, A.Not(inside[i]))
            else:
                i = labels.index(got[k])
                c = inside[i]
                for i2 in range(i + 1, n):
                    c = A.And(c, A.Not(inside[i2]))
            ok = A.And(ok, c)
        A.require(ok, 'interpolate:label-of-containing-interval')
    return Job('C13', 'interpolate_intervals[n=%d,pts=%d]' % (n, npts), build, body, funcs=['util.interpolate_intervals'],
               bounds=dict(intervals=n, points=npts))


def job_unsorted_points():
    def build(ctx):
        iv = ordered_intervals(ctx, 'i', 1)
        pts = C.events(ctx, 'p', 2, sort=False)
        ctx.assume(pts[1] < pts[0])
        return dict(iv=iv, pts=pts)

    def body(A, inp):
        st, v = A.call(U.interpolate_intervals, inp['iv'], ['a'], inp['pts'], 'F')
        A.observe('status', st)
        A.require(st == 'exc' and isinstance(v, ValueError), 'interpolate:decreasing-points-rejected')
    return Job('C13', 'interpolate_intervals[decreasing points]', build, body, funcs=['util.interpolate_intervals'])


# ---------------------------------------------------------------- intervals_to_samples

def job_samples(n, fs, maxT, offset=0):
    def build(ctx):
        iv = ordered_intervals(ctx, 'i', n)
        ctx.assume(iv[n - 1, 1] <= maxT)
        return dict(iv=iv)

    def body(A, inp):
        iv = inp['iv']
        labels = ["L%d" % i for i in range(n)]
        times, got = U.intervals_to_samples(iv, labels, offset=offset, sample_size=fs, fill_value='FILL')
        A.observe('times', list(times))
        A.observe('labels', got)
        K = len(times)
        A.require(len(got) == K, 'samples:length')
        # K = floor(max / fs), sample k at k*fs
        mx = iv[n - 1, 1]
        A.require(A.And(A.xle(K * fs, mx), A.xlt(mx, (K + 1) * fs)), 'samples:count')
        A.require(all(abs(float(times[k]) - (k * fs + offset)) <= 1e-6 * max(1.0, k * fs + offset) for k in range(K)), 'samples:grid')
        ok = True
        for k in range(K):
            p = float(times[k])
            inside = [A.And(A.xle(iv[i, 0], p), A.xle(p, iv[i, 1])) for i in range(n)]
            if got[k] == 'FILL':
                c = True
                for i in range(n):
                    c = A.And(c, A.Not(inside[i]))
            else:
                i = labels.index(got[k])
                c = inside[i]
                for i2 in range(i + 1, n):
                    c = A.And(c, A.Not(inside[i2]))
            ok = A.And(ok, c)
        A.require(ok, 'samples:label-of-containing-interval')
    return Job('C13', 'intervals_to_samples[n=%d,fs=%s,T<=%s%s]' % (n, fs, maxT, '' if not offset else ',offset=%s' % offset), build, body,
               funcs=['util.intervals_to_samples', 'util.interpolate_intervals'], bounds=dict(intervals=n, frame_size=fs, max_time=maxT, offset=offset))


# ---------------------------------------------------------------- boundaries <-> intervals

def job_boundaries(n):
    def build(ctx):
        iv, b = C.contiguous_intervals(ctx, 's', n, start=ctx.gridnum('s_b0', 100000), grid=100000)
        ctx.assume(iv[0, 0] >= 0)
        return dict(iv=iv)

    def body(A, inp):
        iv = inp['iv']
        b = U.intervals_to_boundaries(iv)
        A.observe('boundaries', b)
        A.require(len(b) == n + 1, 'boundaries:count')
        ok = True
        for i in range(n):
            ok = A.And(ok, A.xeq(b[i], iv[i, 0]))
        ok = A.And(ok, A.xeq(b[n], iv[n - 1, 1]))
        A.require(ok, 'boundaries:values')
        iv2 = U.boundaries_to_intervals(b)
        A.require(tuple(np.shape(iv2)) == (n, 2), 'intervals:shape')
        ok = True
        for i in range(n):
            ok = A.And(ok, A.xeq(iv2[i, 0], iv[i, 0]), A.xeq(iv2[i, 1], iv[i, 1]))
        A.require(ok, 'boundaries:round-trip')
        b2 = U.intervals_to_boundaries(iv2)
        ok = len(b2) == len(b)
        for i in range(min(len(b), len(b2))):
            ok = A.And(ok, A.xeq(b2[i], b[i]))
        A.require(ok, 'boundaries:round-trip-2')
    return Job('C13', 'boundaries<->intervals[n=%d]' % n, build, body, exact_floats=False,
               funcs=['util.intervals_to_boundaries', 'util.boundaries_to_intervals'], bounds=dict(segments=n, lattice='1e-5 s'))


def job_boundaries_fine(n):
    """contiguous intervals on the 1e-6 s lattice: the documented rounding to 5 decimals is then a real rounding and distinct
    boundaries may collapse; intervals_to_boundaries must return the strictly increasing set of rounded boundary values, which
    boundaries_to_intervals turns back into consecutive pairs"""
    def build(ctx):
        # boundaries on the 1e-6 s lattice inside [0, 0.0002] (small integer range: the solver decides the rounding cases quickly)
        bs = [ctx.gridnum('s_b%d' % i, 1000000) for i in range(n + 1)]
        ctx.assume(bs[0] >= 0)
        ctx.assume(bs[n] <= 0.0002)
        for x, y in zip(bs, bs[1:]):
            ctx.assume(S._b_cmp('lt')(x, y))
        return dict(iv=S.array([[bs[i], bs[i + 1]] for i in range(n)]))

    def body(A, inp):
        iv = inp['iv']
        raw = [iv[i, 0] for i in range(n)] + [iv[n - 1, 1]]
        b = U.intervals_to_boundaries(iv)
        K = len(b)
        A.observe('boundaries', b)
        inc = True
        for k in range(K - 1):
            inc = A.And(inc, A.xlt(b[k], b[k + 1]))
        A.require(inc, 'boundaries(1e-6 lattice):strictly-increasing')
        half = 5e-6 + 1e-12
        each_out = True
        for k in range(K):
            some = False
            for x in raw:
                some = A.Or(some, A.xle(abs(b[k] - x), half))
            each_out = A.And(each_out, some)
        each_in = True
        for x in raw:
            some = False
            for k in range(K):
                some = A.Or(some, A.xle(abs(b[k] - x), half))
            each_in = A.And(each_in, some)
        A.require(A.And(each_out, each_in), 'boundaries(1e-6 lattice):the-rounded-boundary-values')
        if K < 2:
            return        # the whole annotation is shorter than the rounding resolution: nothing left to pair up
        st, iv2 = A.call(U.boundaries_to_intervals, b)
        A.require(st == 'ok' and tuple(np.shape(iv2)) == (K - 1, 2), 'boundaries(1e-6 lattice):boundaries_to_intervals-accepts-the-result')
        if st == 'ok' and tuple(np.shape(iv2)) == (K - 1, 2):
            ok = True
            for k in range(K - 1):
                ok = A.And(ok, A.xeq(iv2[k, 0], b[k]), A.xeq(iv2[k, 1], b[k + 1]))
            A.require(ok, 'boundaries(1e-6 lattice):consecutive-pairs')
    return Job('C13', 'boundaries<->intervals[n=%d,1e-6 lattice]' % n, build, body, exact_floats=False, exc_policy='body',
               funcs=['util.intervals_to_boundaries', 'util.boundaries_to_intervals'], bounds=dict(segments=n, lattice='1e-6 s', span='[0, 0.0002] s'))


# ---------------------------------------------------------------- sort_labeled_intervals

def job_sort(n):
    def build(ctx):
        rows = []
        for i in range(n):
            a = ctx.real("s%d" % i)
            b = ctx.real("e%d" % i)
            ctx.assume(a >= 0)
            ctx.assume(b > a)
            rows.append([a, b])
        return dict(iv=S.array(rows))

    def body(A, inp):
        iv = inp['iv']
        labels = ["L%d" % i for i in range(n)]
        out, ol = U.sort_labeled_intervals(iv, list(labels))
        # (the order of equal start times is unspecified - NumPy's default sort is not stable - so only tie-independent
        # values are observed for the cross-validation)
        A.observe('starts', out[:, 0])
        A.require(len(out) == n and sorted(ol) == sorted(labels), 'sort:permutation-of-labels')
        inc = True
        for j in range(n - 1):
            inc = A.And(inc, A.xle(out[j, 0], out[j + 1, 0]))
        A.require(inc, 'sort:ordered-by-start')
        att = True
        for j in range(n):
            i = labels.index(ol[j])
            att = A.And(att, A.xeq(out[j, 0], iv[i, 0]), A.xeq(out[j, 1], iv[i, 1]))
        A.require(att, 'sort:labels-stay-attached')
        out2 = U.sort_labeled_intervals(iv)
        same = True
        for j in range(n):
            same = A.And(same, A.xeq(out2[j, 0], out[j, 0]), A.xeq(out2[j, 1], out[j, 1]))
        A.require(same, 'sort:same-without-labels')
    return Job('C13', 'sort_labeled_intervals[n=%d]' % n, build, body, funcs=['util.sort_labeled_intervals'], bounds=dict(intervals=n))


def jobs(tier):
    q = tier == 'quick'
    js = []
    for n in ((1, 2) if q else (1, 2, 3)):
        for tmin in ('sym', 'zero', 'none'):
            for tmax in ('sym', 'none'):
                js.append(job_adjust_intervals(n, tmin, tmax))
    js.append(job_adjust_intervals(3 if q else 4, 'sym', 'sym'))
    js.append(job_adjust_intervals(2, 'sym', 'sym', with_labels=False))
    for n in ((1, 2) if q else (1, 2, 3, 4)):
        js.append(job_adjust_events(n))
    for (a, b) in ([(1, 1), (2, 2), (1, 3)] if q else [(1, 1), (2, 2), (1, 3), (3, 3), (2, 4)]):
        js.append(job_merge(a, b))
    for (n, p) in ([(1, 2), (2, 3)] if q else [(1, 2), (2, 3), (3, 4), (2, 5)]):
        js.append(job_interpolate(n, p))
    js.append(job_unsorted_points())
    for (n, fs, T) in ([(2, 0.5, 2.0), (1, 0.25, 1.0)] if q else [(2, 0.5, 2.0), (1, 0.25, 1.0), (3, 0.5, 4.0), (2, 0.125, 1.0)]):
        js.append(job_samples(n, fs, T))
    # a non-zero offset: sample k sits at k*fs + offset and takes the label found *there*
    js.append(job_samples(2, 0.5, 2.0, offset=0.25))
    if not q:
        js.append(job_samples(2, 0.25, 1.0, offset=0.125))
        js.append(job_samples(3, 0.5, 2.0, offset=0.375))
    for n in ((1, 2, 3) if q else (1, 2, 3, 4)):
        js.append(job_boundaries(n))
    for n in ((1, 2) if q else (1, 2, 3)):
        js.append(job_boundaries_fine(n))
    for n in ((2, 3) if q else (2, 3, 4)):
        js.append(job_sort(n))
    return js
