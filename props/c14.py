"""C14 - valid annotations are always scored; malformed ones are rejected cleanly."""
import numpy as np

import mir_eval.beat as BEAT
import mir_eval.onset as ONSET
import mir_eval.segment as SEG
import mir_eval.chord as CHORD
import mir_eval.melody as MEL
import mir_eval.multipitch as MP
import mir_eval.transcription as TR
import mir_eval.tempo as TEMPO
import mir_eval.hierarchy as HIER
import mir_eval.alignment as ALIGN
import mir_eval.pattern as PAT
import mir_eval.util as U

from symx import core as S
from symx.harness import Job
from . import common as C
from . import tasks as T
from . import evals as E

META = dict(
    explanation="Valid side: every metric of the task table and every evaluate() is run symbolically on inputs constrained only by the "
                "documented conventions (incl. empty sides, single items, duplicates, estimates starting earlier / running longer, "
                "boundaries coinciding with the reference's start/end); an exception on any feasible path is a violation.  Invalid side: "
                "for each documented convention a single-fault corruption (symbolic fault value) must raise ValueError.",
    bounds="shapes as C01; evaluate(): <=2+2 (quick) / 3+2 (thorough) items per side",
    stubs=["beat.p_score, beat.information_gain, alignment.karaoke_perceptual_metric replaced by constant stubs inside evaluate() (out of reach): "
           "exceptions raised inside them are outside the claim"],
    assumptions=["alignment.percentage_correct_segments requires two distinct reference timestamps (documented ValueError otherwise)",
                 "key and chord label strings are covered by C10 / C14's string jobs, not here"],
)


def make_valid_job(spec, size):
    def build(ctx):
        return spec.build(ctx, size)

    def body(A, inp):
        st, v = A.call(spec.call, inp)
        A.observe('status', st if st == 'ok' else type(v).__name__)
        A.require(st == 'ok', spec.name + ':no-exception-on-valid-input', exc=repr(v)[:200] if st != 'ok' else None)
    return Job('C14', 'valid:%s[%s]' % (spec.name, 'x'.join(map(str, size))), build, body, funcs=spec.funcs, bounds=dict(size=size),
               exact_floats=spec.exact_floats, timeout_s=spec.timeout_s, exc_policy='body')


def make_eval_job(ev, size):
    def build(ctx):
        return ev.build(ctx, size)

    def body(A, inp):
        st, v = A.call(ev.call, inp)
        A.observe('status', st if st == 'ok' else type(v).__name__)
        A.require(st == 'ok', ev.task + '.evaluate:no-exception-on-valid-input', exc=repr(v)[:200] if st != 'ok' else None)
    return Job('C14', 'valid:%s.evaluate[%s]' % (ev.task, 'x'.join(map(str, size))), build, body, funcs=ev.funcs, bounds=dict(size=size),
               exact_floats=ev.exact_floats, timeout_s=ev.timeout_s, exc_policy='body')


# ---------------------------------------------------------------- invalid side (single faults)

def fault_job(name, build, call, funcs, exc=ValueError, exact_floats=True):
    def body(A, inp):
        st, v = A.call(call, inp)
        A.observe('status', st if st == 'ok' else type(v).__name__)
        A.require(st == 'exc' and isinstance(v, exc), name + ':raises-' + exc.__name__,
                  got=('returned %r' % (v,))[:120] if st == 'ok' else type(v).__name__)
    return Job('C14', 'invalid:' + name, build, body, funcs=funcs, exact_floats=exact_floats, exc_policy='body')


def _unsorted(ctx, arr):
    n = len(arr)
    c = False
    for i in range(n - 1):
        c = S._lor(c, arr[i + 1] < arr[i])
    ctx.assume(c)


def fault_jobs(tier):
    js = []

    # --- event times: unsorted / too large / 2-d  (beat, onset, multipitch times)
    for modname, fn in (('beat.f_measure', BEAT.f_measure), ('beat.cemgil', BEAT.cemgil), ('beat.goto', BEAT.goto), ('beat.continuity', BEAT.continuity),
                        ('onset.f_measure', ONSET.f_measure)):
        for side in (0, 1):
            def b_uns(ctx, side=side):
                a = C.events(ctx, 'a', 3, sort=False)
                _unsorted(ctx, a)
                b = C.events(ctx, 'b', 2)
                return dict(args=(a, b) if side == 0 else (b, a))
            js.append(fault_job('%s[unsorted %s]' % (modname, 'reference' if side == 0 else 'estimate'), b_uns, lambda inp, fn=fn: fn(*inp['args']), [modname, 'util.validate_events']))

            def b_big(ctx, side=side):
                a = C.events(ctx, 'a', 2, hi=10 ** 9)
                ctx.assume(a[1] > 30000)
                b = C.events(ctx, 'b', 2)
                return dict(args=(a, b) if side == 0 else (b, a))
            js.append(fault_job('%s[time > 30000 in %s]' % (modname, 'reference' if side == 0 else 'estimate'), b_big, lambda inp, fn=fn: fn(*inp['args']), [modname, 'util.validate_events']))

        for side in (0, 1):
            def b_2d(ctx, side=side):
                a = C.events(ctx, 'a', 4).reshape(2, 2)
                b = C.events(ctx, 'b', 2)
                return dict(args=(a, b) if side == 0 else (b, a))
            js.append(fault_job('%s[2-d %s]' % (modname, 'reference' if side == 0 else 'estimate'), b_2d, lambda inp, fn=fn: fn(*inp['args']), [modname, 'util.validate_events']))

            def b_col(ctx, side=side):
                a = C.events(ctx, 'a', 2).reshape(2, 1)
                b = C.events(ctx, 'b', 2)
                return dict(args=(a, b) if side == 0 else (b, a))
            js.append(fault_job('%s[(n,1) column as %s]' % (modname, 'reference' if side == 0 else 'estimate'), b_col, lambda inp, fn=fn: fn(*inp['args']), [modname, 'util.validate_events']))

    # --- intervals: negative / non-positive duration / not n-by-2
    def seg_fault(kind):
        def b(ctx):
            s = ctx.real('s')
            e = ctx.real('e')
            if kind == 'negative':
                ctx.assume(s < 0)
                ctx.assume(e > s)
            else:
                ctx.assume(s >= 0)
                ctx.assume(e <= s)
                ctx.assume(e >= 0)
            bad = S.array([[s, e]])
            good = S.array([[0.0, 1.0]])
            return dict(bad=bad, good=good)
        return b
    for kind in ('negative', 'non-positive duration'):
        for nm, fn in (('segment.detection', lambda bad, good: SEG.detection(bad, good)), ('segment.detection(est)', lambda bad, good: SEG.detection(good, bad)),
                       ('segment.deviation', lambda bad, good: SEG.deviation(bad, good)), ('segment.deviation(est)', lambda bad, good: SEG.deviation(good, bad)),
                       ('segment.pairwise', lambda bad, good: SEG.pairwise(bad, ['a'], good, ['a'])), ('segment.pairwise(est)', lambda bad, good: SEG.pairwise(good, ['a'], bad, ['a'])),
                       ('chord.overseg', lambda bad, good: CHORD.overseg(bad, good)), ('chord.underseg', lambda bad, good: CHORD.underseg(bad, good)),
                       ('chord.overseg(est)', lambda bad, good: CHORD.overseg(good, bad)), ('chord.underseg(est)', lambda bad, good: CHORD.underseg(good, bad)),
                       ('transcription.onset_precision_recall_f1', lambda bad, good: TR.onset_precision_recall_f1(bad, good)),
                       ('transcription.onset_precision_recall_f1(est)', lambda bad, good: TR.onset_precision_recall_f1(good, bad)),
                       ('transcription.precision_recall_f1_overlap', lambda bad, good: TR.precision_recall_f1_overlap(bad, np.array([440.0]), good, np.array([440.0]))),
                       ('transcription.precision_recall_f1_overlap(est)', lambda bad, good: TR.precision_recall_f1_overlap(good, np.array([440.0]), bad, np.array([440.0]))),
                       ('util.intervals_to_durations', lambda bad, good: U.intervals_to_durations(bad))):
            js.append(fault_job('%s[%s interval]' % (nm, kind), seg_fault(kind), lambda inp, fn=fn: fn(inp['bad'], inp['good']), [nm.split('(')[0], 'util.validate_intervals']))

    def b_shape(ctx):
        return dict(bad=C.events(ctx, 'a', 3), good=S.array([[0.0, 1.0]]))
    for nm, fn in (('segment.detection', lambda bad, good: SEG.detection(bad, good)), ('chord.overseg', lambda bad, good: CHORD.overseg(good, bad)),
                   ('transcription.onset_precision_recall_f1', lambda bad, good: TR.onset_precision_recall_f1(good, bad))):
        js.append(fault_job('%s[intervals not n-by-2]' % nm, b_shape, lambda inp, fn=fn: fn(inp['bad'], inp['good']), [nm, 'util.validate_intervals']))

    # --- overlapping chord intervals
    def b_overlap(ctx):
        a, b, c, d = (ctx.real(x) for x in 'abcd')
        ctx.assume(a >= 0)
        ctx.assume(b > a)
        ctx.assume(c < b)
        ctx.assume(c >= a)
        ctx.assume(d > c)
        return dict(bad=S.array([[a, b], [c, d]]), good=S.array([[0.0, 1.0]]))
    js.append(fault_job('chord.overseg[overlapping reference intervals]', b_overlap, lambda inp: CHORD.overseg(inp['bad'], inp['good']),
                        ['chord.directional_hamming_distance']))

    # --- segment structure: not starting at 0 / ends differ / labels length
    def b_start(ctx):
        s = ctx.gridnum('s', 100000)
        ctx.assume(s >= 0.001)
        T_ = ctx.gridnum('T', 100000)
        ctx.assume(T_ > s)
        ctx.assume(T_ <= 2)
        return dict(a=S.array([[s, T_]]), b=S.array([[0.0, T_]]))
    for nm, fn in (('pairwise', SEG.pairwise), ('rand_index', SEG.rand_index), ('ari', SEG.ari), ('mutual_information', SEG.mutual_information),
                   ('nce', SEG.nce), ('vmeasure', SEG.vmeasure)):
        js.append(fault_job('segment.%s[reference does not start at 0]' % nm, b_start, lambda inp, fn=fn: fn(inp['a'], ['x'], inp['b'], ['y'], frame_size=0.5),
                            ['segment.' + nm, 'segment.validate_structure'], exact_floats=False))
        js.append(fault_job('segment.%s[estimate does not start at 0]' % nm, b_start, lambda inp, fn=fn: fn(inp['b'], ['x'], inp['a'], ['y'], frame_size=0.5),
                            ['segment.' + nm, 'segment.validate_structure'], exact_floats=False))

        def b_end(ctx):
            T1 = ctx.gridnum('T1', 100000)
            T2 = ctx.gridnum('T2', 100000)
            ctx.assume(T1 > 0.5)
            ctx.assume(T1 <= 2)
            ctx.assume(T2 >= T1 + 0.01)
            ctx.assume(T2 <= 3)
            return dict(a=S.array([[0.0, T1]]), b=S.array([[0.0, T2]]))
        js.append(fault_job('segment.%s[end times differ]' % nm, b_end, lambda inp, fn=fn: fn(inp['a'], ['x'], inp['b'], ['y'], frame_size=0.5),
                            ['segment.' + nm, 'segment.validate_structure'], exact_floats=False))

        def b_lab(ctx):
            T1 = ctx.gridnum('T1', 100000)
            ctx.assume(T1 > 0.5)
            ctx.assume(T1 <= 2)
            return dict(a=S.array([[0.0, T1]]))
        js.append(fault_job('segment.%s[labels/intervals length mismatch]' % nm, b_lab,
                            lambda inp, fn=fn: fn(inp['a'], ['x', 'y'], inp['a'].copy(), ['y'], frame_size=0.5), ['segment.' + nm], exact_floats=False))

    # --- melody: voicing range, unequal lengths
    def b_voicing(ctx):
        v = ctx.real('v')
        ctx.assume(S._lor(v < 0, v > 1))
        return dict(bad=S.array([v, 0.5]), good=S.array([1.0, 0.0]), cents=S.array([100.0, 200.0]))
    js.append(fault_job('melody.voicing_measures[voicing outside [0,1]]', b_voicing, lambda inp: MEL.voicing_measures(inp['good'], inp['bad']),
                        ['melody.validate_voicing']))
    js.append(fault_job('melody.voicing_measures[reference voicing outside [0,1]]', b_voicing, lambda inp: MEL.voicing_measures(inp['bad'], inp['good']),
                        ['melody.validate_voicing']))
    for nm, fn in (('raw_pitch_accuracy', MEL.raw_pitch_accuracy), ('raw_chroma_accuracy', MEL.raw_chroma_accuracy), ('overall_accuracy', MEL.overall_accuracy)):
        js.append(fault_job('melody.%s[ref voicing outside [0,1]]' % nm, b_voicing,
                            lambda inp, fn=fn: fn(inp['bad'], inp['cents'], inp['good'], inp['cents']), ['melody.' + nm]))
        js.append(fault_job('melody.%s[est voicing outside [0,1]]' % nm, b_voicing,
                            lambda inp, fn=fn: fn(inp['good'], inp['cents'], inp['bad'], inp['cents']), ['melody.' + nm]))

    def b_len(ctx):
        return dict(v3=S.array([ctx.real('a'), 0.5, 1.0]) * 0 + 0.5, v2=S.array([1.0, 0.0]), c2=S.array([100.0, 200.0]), c3=S.array([1.0, 2.0, 3.0]))
    for nm, fn in (('raw_pitch_accuracy', MEL.raw_pitch_accuracy), ('raw_chroma_accuracy', MEL.raw_chroma_accuracy), ('overall_accuracy', MEL.overall_accuracy)):
        js.append(fault_job('melody.%s[voicing arrays of unequal length]' % nm, b_len, lambda inp, fn=fn: fn(inp['v3'], inp['c3'], inp['v2'], inp['c2']),
                            ['melody.' + nm, 'melody.validate']))
        js.append(fault_job('melody.%s[cent array length mismatch]' % nm, b_len, lambda inp, fn=fn: fn(inp['v2'], inp['c3'], inp['v2'], inp['c2']),
                            ['melody.' + nm, 'melody.validate']))
        js.append(fault_job('melody.%s[estimated cent array length mismatch]' % nm, b_len, lambda inp, fn=fn: fn(inp['v2'], inp['c2'], inp['v2'], inp['c3']),
                            ['melody.' + nm, 'melody.validate']))
        js.append(fault_job('melody.%s[estimated voicing longer]' % nm, b_len, lambda inp, fn=fn: fn(inp['v2'], inp['c2'], inp['v3'], inp['c3']),
                            ['melody.' + nm, 'melody.validate']))

    # --- transcription: non-positive pitch, unequal lengths
    def b_pitch(ctx):
        p = ctx.real('p')
        ctx.assume(p <= 0)
        iv = C.note_intervals(ctx, 'n', 1)
        return dict(iv=iv, bad=S.array([p]), good=np.array([440.0]))
    js.append(fault_job('transcription.precision_recall_f1_overlap[non-positive reference pitch]', b_pitch,
                        lambda inp: TR.precision_recall_f1_overlap(inp['iv'], inp['bad'], inp['iv'].copy(), inp['good']), ['transcription.validate'], exact_floats=False))
    js.append(fault_job('transcription.precision_recall_f1_overlap[non-positive estimated pitch]', b_pitch,
                        lambda inp: TR.precision_recall_f1_overlap(inp['iv'], inp['good'], inp['iv'].copy(), inp['bad']), ['transcription.validate'], exact_floats=False))

    def b_plen(ctx):
        return dict(iv=C.note_intervals(ctx, 'n', 2), p1=np.array([440.0]), p2=np.array([440.0, 220.0]))
    js.append(fault_job('transcription.precision_recall_f1_overlap[pitches/intervals length mismatch]', b_plen,
                        lambda inp: TR.precision_recall_f1_overlap(inp['iv'], inp['p1'], inp['iv'].copy(), inp['p2']), ['transcription.validate'], exact_floats=False))

    # --- tempo
    def tempo_fault(kind):
        def b(ctx):
            d = T.b_tempo(ctx, (2, 2))
            rt, w = d['ref']
            et = d['est'][0]
            tol = d['kw']['tol']
            x = ctx.real('fault')
            if kind == 'negative reference tempo':
                ctx.assume(x < 0)
                rt = S.array([x, rt[1]])
            elif kind == 'negative estimated tempo':
                ctx.assume(x < 0)
                et = S.array([et[0], x])
            elif kind == 'weight outside [0,1]':
                ctx.assume(S._lor(x < 0, x > 1))
                w = x
            elif kind == 'tol outside [0,1]':
                ctx.assume(S._lor(x < 0, x > 1))
                tol = x
            elif kind == 'reference tempi both zero':
                rt = S.array([0.0, 0.0])
            elif kind == 'three reference tempi':
                rt = S.array([rt[0], rt[1], 100.0])
            return dict(args=(rt, w, et), tol=tol)
        return b
    for kind in ('negative reference tempo', 'negative estimated tempo', 'weight outside [0,1]', 'tol outside [0,1]', 'reference tempi both zero',
                 'three reference tempi'):
        js.append(fault_job('tempo.detection[%s]' % kind, tempo_fault(kind), lambda inp: TEMPO.detection(*inp['args'], tol=inp['tol']),
                            ['tempo.detection', 'tempo.validate', 'tempo.validate_tempi']))

    # --- hierarchy parameters
    def b_hp(kind):
        def b(ctx):
            fs = ctx.real('frame_size')
            win = ctx.real('window')
            if kind == 'frame_size <= 0':
                ctx.assume(fs <= 0)
                ctx.assume(win > 0)
            else:
                ctx.assume(fs > 0)
                ctx.assume(win > 0)
                ctx.assume(fs > win)
            return dict(h=[np.array([[0.0, 2.0]]), np.array([[0.0, 1.0], [1.0, 2.0]])], fs=fs, win=win)
        return b
    js.append(fault_job('hierarchy.tmeasure[frame_size <= 0]', b_hp('frame_size <= 0'), lambda inp: HIER.tmeasure(inp['h'], inp['h'], frame_size=inp['fs'], window=inp['win']),
                        ['hierarchy.tmeasure']))
    js.append(fault_job('hierarchy.tmeasure[frame_size > window]', b_hp('x'), lambda inp: HIER.tmeasure(inp['h'], inp['h'], frame_size=inp['fs'], window=inp['win']),
                        ['hierarchy.tmeasure']))
    js.append(fault_job('hierarchy.lmeasure[frame_size <= 0]', b_hp('frame_size <= 0'),
                        lambda inp: HIER.lmeasure(inp['h'], [['a'], ['a', 'b']], inp['h'], [['a'], ['a', 'b']], frame_size=inp['fs']), ['hierarchy.lmeasure']))

    # --- alignment
    def b_al(kind):
        def b(ctx):
            r = T.beats(ctx, 'r', 2)
            e = T.beats(ctx, 'e', 3 if kind == 'unequal lengths' else 2)
            if kind == 'negative reference':
                r = C.events(ctx, 'q', 2, lo=-10)
                ctx.assume(r[0] < 0)
            if kind == 'decreasing estimate':
                e = C.events(ctx, 'q', 2, sort=False)
                ctx.assume(e[1] < e[0])
            if kind == 'negative estimate':
                e = C.events(ctx, 'q', 2, lo=-10)
                ctx.assume(e[0] < 0)
            if kind == 'decreasing reference':
                r = C.events(ctx, 'q', 2, sort=False)
                ctx.assume(r[1] < r[0])
            if kind == 'two-dimensional reference (n,1)':
                r = r.reshape(-1, 1)
            if kind == 'two-dimensional estimate (n,1)':
                e = e.reshape(-1, 1)
            if kind == 'empty reference':
                r = C.events(ctx, 'q', 0)
                e = C.events(ctx, 'p', 0)
            return dict(args=(r, e))
        return b
    for kind in ('unequal lengths', 'negative reference', 'negative estimate', 'decreasing estimate', 'decreasing reference',
                 'two-dimensional reference (n,1)', 'two-dimensional estimate (n,1)', 'empty reference'):
        for nm, fn in (('absolute_error', ALIGN.absolute_error), ('percentage_correct', ALIGN.percentage_correct),
                       ('percentage_correct_segments', ALIGN.percentage_correct_segments)):
            js.append(fault_job('alignment.%s[%s]' % (nm, kind), b_al(kind), lambda inp, fn=fn: fn(*inp['args']), ['alignment.' + nm, 'alignment.validate']))

    # --- chord.weighted_accuracy
    def b_wa(kind):
        def b(ctx):
            w = ctx.real('w')
            if kind == 'negative weight':
                ctx.assume(w < 0)
                return dict(c=np.array([1.0, 0.0]), w=S.array([w, 1.0]))
            ctx.assume(w >= 0)
            return dict(c=np.array([1.0, 0.0, 1.0]), w=S.array([w, 1.0]))
        return b
    for kind in ('negative weight', 'comparisons/weights length mismatch'):
        js.append(fault_job('chord.weighted_accuracy[%s]' % kind, b_wa(kind), lambda inp: CHORD.weighted_accuracy(inp['c'], inp['w']), ['chord.weighted_accuracy']))

    # --- multipitch
    def b_mp(kind):
        def b(ctx):
            f = ctx.real('f')
            if kind == 'frequency out of range':
                ctx.assume(S._lor(S._land(f > 0, f < 20), f > 5000))
            else:
                ctx.assume(f >= 20)
                ctx.assume(f <= 5000)
            t = C.events(ctx, 't', 2, strict=True)
            fr = [S.array([f]), np.array([440.0])]
            if kind == 'times/frequencies length mismatch':
                fr = [S.array([f])]
            return dict(t=t, fr=fr, good=[np.array([440.0]), np.array([220.0])])
        return b
    for kind in ('frequency out of range', 'times/frequencies length mismatch'):
        js.append(fault_job('multipitch.metrics[reference %s]' % kind, b_mp(kind), lambda inp: MP.metrics(inp['t'], inp['fr'], inp['t'].copy(), inp['good']),
                            ['multipitch.validate', 'util.validate_frequencies']))
        js.append(fault_job('multipitch.metrics[estimate %s]' % kind, b_mp(kind), lambda inp: MP.metrics(inp['t'], inp['good'], inp['t'].copy(), inp['fr']),
                            ['multipitch.validate', 'util.validate_frequencies']))

    # (the faulty frame is the last one of the longer annotation: the other annotation has no frame at that index)
    def b_mp_tail(ctx):
        f = ctx.real('f')
        ctx.assume(S._lor(S._land(f > 0, f < 20), f > 5000))
        t = C.events(ctx, 't', 2, strict=True)
        return dict(t=t, fr=[np.array([440.0]), S.array([f])], t1=t[:1].copy(), good=[np.array([440.0])])
    js.append(fault_job('multipitch.metrics[reference frequency out of range, in a frame beyond the estimate]', b_mp_tail,
                        lambda inp: MP.metrics(inp['t'], inp['fr'], inp['t1'], inp['good']), ['multipitch.validate', 'util.validate_frequencies']))
    js.append(fault_job('multipitch.metrics[estimate frequency out of range, in a frame beyond the reference]', b_mp_tail,
                        lambda inp: MP.metrics(inp['t1'], inp['good'], inp['t'], inp['fr']), ['multipitch.validate', 'util.validate_frequencies']))
    js.append(fault_job('multipitch.metrics[estimate frequency out of range, empty reference]', b_mp_tail,
                        lambda inp: MP.metrics(inp['t'][:0].copy(), [], inp['t'], inp['fr']), ['multipitch.validate', 'util.validate_frequencies']))

    # --- separation.validate: silent / mis-shaped sources (symbolic non-zero samples, concrete shapes)
    import mir_eval.separation as SEP

    def b_sep(kind):
        def b(ctx):
            vals = [ctx.real('x%d' % i) for i in range(4)]
            for v in vals:
                ctx.assume(S._lor(v > 0, v < 0))
            good = S.array([[vals[0], vals[1]], [vals[2], vals[3]]])
            if kind == 'silent reference source':
                return dict(ref=S.array([[vals[0], vals[1]], [0.0, 0.0]]), est=good)
            if kind == 'silent estimated source':
                return dict(ref=good, est=S.array([[0.0, 0.0], [vals[2], vals[3]]]))
            if kind == 'shape mismatch':
                return dict(ref=good, est=S.array([[vals[0], vals[1], vals[2]], [vals[2], vals[3], vals[0]]]))
            return dict(ref=good.reshape(1, 1, 2, 2), est=good.reshape(1, 1, 2, 2))
        return b
    for kind in ('silent reference source', 'silent estimated source', 'shape mismatch', 'four-dimensional sources'):
        js.append(fault_job('separation.validate[%s]' % kind, b_sep(kind), lambda inp: SEP.validate(inp['ref'], inp['est']), ['separation.validate', 'separation._any_source_silent']))

    # --- malformed chord labels reach InvalidChordException through the comparison functions and evaluate()
    def b_lab(ctx):
        T_ = ctx.real('T')
        ctx.assume(T_ > 0)
        return dict(iv=S.array([[0.0, T_]]))
    for bad in ('H:maj', 'C:major', 'C::maj', 'C:maj/', '', 'C:maj(', 'N:maj'):
        js.append(fault_job('chord.evaluate[label %r]' % bad, b_lab, lambda inp, bad=bad: CHORD.evaluate(inp['iv'], ['C:maj'], inp['iv'].copy(), [bad]),
                            ['chord.evaluate', 'chord.validate_chord_label'], exc=CHORD.InvalidChordException))
        js.append(fault_job('chord.thirds[label %r]' % bad, b_lab, lambda inp, bad=bad: CHORD.thirds([bad], ['C:maj']),
                            ['chord.thirds', 'chord.validate'], exc=CHORD.InvalidChordException))

    # --- pattern
    def b_pat(kind):
        def b(ctx):
            on = ctx.real('on')
            ctx.assume(on >= 0)
            good = [[[(on, 60.0)]]]
            if kind == 'tuple of wrong arity':
                bad = [[[(on, 60.0, 1.0)]]]
            else:
                bad = [[]]
            return dict(good=good, bad=bad)
        return b
    for kind in ('tuple of wrong arity', 'pattern without occurrence'):
        for nm, fn in (('standard_FPR', PAT.standard_FPR), ('establishment_FPR', PAT.establishment_FPR), ('occurrence_FPR', PAT.occurrence_FPR),
                       ('three_layer_FPR', PAT.three_layer_FPR)):
            js.append(fault_job('pattern.%s[%s]' % (nm, kind), b_pat(kind), lambda inp, fn=fn: fn(inp['good'], inp['bad']), ['pattern.' + nm, 'pattern.validate']))
    return js


def key_string_job(L):
    """arbitrary strings through key.validate_key / weighted_score: accepted or ValueError, nothing else; acceptance == documented form"""
    import re
    import mir_eval.key as KEY
    from symx import strings as ST
    KEYNAMES = sorted(k for k in KEY.KEY_TO_SEMITONE if k != 'x')

    def build(ctx):
        return dict(s=ST.string_input(ctx, 's', L))

    def body(A, inp):
        s = inp['s']
        st, v = A.call(KEY.validate_key, s)
        A.observe('status', st if st == 'ok' else type(v).__name__)
        A.require(st == 'ok' or isinstance(v, ValueError), 'key.validate_key:only-ValueError', got=type(v).__name__)
        st2, v2 = A.call(KEY.weighted_score, s, 'C major')
        A.require(st2 == 'ok' or isinstance(v2, ValueError), 'key.weighted_score:only-ValueError', got=type(v2).__name__)
        A.require((st == 'ok') == (st2 == 'ok'), 'key.weighted_score:rejects-exactly-what-validate_key-rejects')
        if st == 'ok':
            lab = s.conc() if A.sym else s
            parts = lab.split()
            good = (len(parts) == 2 and parts[0].lower() in KEYNAMES and parts[1] in ('major', 'minor', 'other')) or lab.lower() == 'x' or \
                   (len(parts) == 1 and parts[0].lower() == 'x')
            A.require(good, 'key.validate_key:accepted=>documented-form', label=lab)
            if st2 == 'ok':
                A.require(A.in01(v2), 'key.weighted_score:in-[0,1]')
    j = Job('C14', 'strings:key.validate_key[length=%d]' % L, build, body, funcs=['key.validate_key', 'key.weighted_score', 'key.split_key_string'],
            lattice=0, exc_policy='body', max_decisions=200000, timeout_s=2400, bounds=dict(length=L))
    j.extra_patches = {'key': {'KEY_TO_SEMITONE': ST.SymDict(KEY.KEY_TO_SEMITONE), 'str': ST.sym_str}}
    return j


def jobs(tier):
    js = []
    for L in ((1, 3, 5) if tier == 'quick' else (1, 2, 3, 5, 7)):
        js.append(key_string_job(L))
    for spec in T.SPECS:
        for size in spec.sizes[tier]:
            js.append(make_valid_job(spec, size))
    for spec in T.structure_specs(tier):
        for size in spec.sizes[tier]:
            js.append(make_valid_job(spec, size))
    for ev in E.EVALS:
        for size in ev.sizes[tier]:
            js.append(make_eval_job(ev, size))
    js += fault_jobs(tier)
    return js
