"""C15 - evaluation is pure: inputs are never modified, results are repeatable."""
import numpy as np

import mir_eval.util as U
import mir_eval.melody as MEL
import mir_eval.chord as CHORD

from symx import core as S
from symx.harness import Job
from . import common as C
from . import tasks as T
from . import evals as E

META = dict(
    explanation="After every symbolically executed call (all metrics of the task table, every evaluate(), the pre-processing helpers) each "
                "cell of each argument container is compared with its value before the call as a solver obligation (an in-place masked write "
                "leaves an ite term that differs for some input), lists/dicts are compared structurally; the call is repeated on the same "
                "path and both results must be equal terms; np.empty returns fresh unconstrained variables and no result may depend on them.",
    bounds="as C01/C14 shapes",
    stubs=["np.empty(float) yields fresh unconstrained reals (uninitialised memory)", "as C01"],
    assumptions=["outside the claim: sonify, the numerical core of separation"],
)


def snapshot(x):
    if isinstance(x, np.ndarray):
        return ('nd', x.shape, [v for v in np.asarray(x, dtype=object).reshape(-1)] if x.dtype == object else x.copy())
    if isinstance(x, list):
        return ('list', [snapshot(v) for v in x])
    if isinstance(x, tuple):
        return ('tuple', [snapshot(v) for v in x])
    if isinstance(x, dict):
        return ('dict', {k: snapshot(v) for k, v in x.items()})
    return ('val', x)


def unchanged(A, snap, x):
    kind = snap[0]
    if kind == 'nd':
        if not isinstance(x, np.ndarray) or x.shape != snap[1]:
            return False
        if x.dtype == object:
            ok = True
            for a, b in zip(snap[2], np.asarray(x, dtype=object).reshape(-1)):
                ok = A.And(ok, A.xeq(a, b) if (S.is_sym(a) or S.is_sym(b) or not isinstance(a, (str, type(None)))) else a == b)
            return ok
        return bool(np.array_equal(snap[2], x, equal_nan=True)) if x.dtype.kind == 'f' else bool(np.array_equal(snap[2], x))
    if kind in ('list', 'tuple'):
        if not isinstance(x, (list, tuple)) or len(x) != len(snap[1]):
            return False
        ok = True
        for s, v in zip(snap[1], x):
            ok = A.And(ok, unchanged(A, s, v))
        return ok
    if kind == 'dict':
        if not isinstance(x, dict) or list(x.keys()) != list(snap[1].keys()):
            return False
        ok = True
        for k in x:
            ok = A.And(ok, unchanged(A, snap[1][k], x[k]))
        return ok
    a, b = snap[1], x
    if S.is_sym(a) or S.is_sym(b):
        return A.xeq(a, b)
    if isinstance(a, float) and isinstance(b, float) and a != a and b != b:
        return True
    return type(a) == type(b) and a == b if not isinstance(a, (int, float, np.number)) else a == b


def same_result(A, r1, r2):
    if isinstance(r1, dict) and isinstance(r2, dict):
        if list(r1.keys()) != list(r2.keys()):
            return False
        ok = True
        for k in r1:
            ok = A.And(ok, same_result(A, r1[k], r2[k]))
        return ok
    if isinstance(r1, (tuple, list)) and isinstance(r2, (tuple, list)):
        if len(r1) != len(r2):
            return False
        ok = True
        for a, b in zip(r1, r2):
            ok = A.And(ok, same_result(A, a, b))
        return ok
    if isinstance(r1, np.ndarray) or isinstance(r2, np.ndarray):
        a1 = np.asarray(r1, dtype=object).reshape(-1)
        a2 = np.asarray(r2, dtype=object).reshape(-1)
        if a1.shape != a2.shape:
            return False
        ok = True
        for a, b in zip(a1, a2):
            ok = A.And(ok, same_result(A, a, b))
        return ok
    if S.is_sym(r1) or S.is_sym(r2):
        return A.xeq(r1, r2)
    try:
        if r1 != r1 and r2 != r2:
            return True
    except Exception:
        pass
    return bool(r1 == r2)


def make_job(name, funcs, build, call, exact_floats=True, timeout_s=900, fresh=True):
    def body(A, inp):
        # every run of the body (symbolic path or concrete replay) starts from the module-level state of a fresh interpreter, so
        # that "the second call differs from the first" means the same thing in both
        _restore_module_state(_PRISTINE)
        args = inp
        snap = snapshot(args)
        st1, r1 = A.call(call, args)
        A.observe('status', st1 if st1 == 'ok' else type(r1).__name__)
        A.require(unchanged(A, snap, args), name + ':arguments-unchanged')
        if st1 != 'ok':
            return
        st2, r2 = A.call(call, args)
        A.require(st2 == 'ok' and same_result(A, r1, r2), name + ':repeatable')
        A.require(unchanged(A, snap, args), name + ':arguments-unchanged-after-repeat')
    return Job('C15', name, build, body, funcs=funcs, exact_floats=exact_floats, timeout_s=timeout_s, fresh_empty=fresh, exc_policy='body')


def helper_jobs(tier):
    js = []
    # chord annotations in which neighbouring intervals carry the same chord (merge_chord_intervals joins them)
    import mir_eval.chord as CHORD
    # (G:7 and G:9 have the same plain bitmap and different ones under reduce_extended_chords: the two encodings of one label
    #  must not influence each other across calls)
    reps = [((2, 1), ['C:maj', 'C'], ['G:7']), ((2, 2), ['A:min', 'A:min'], ['N', 'N']), ((2, 1), ['G:7', 'G:9'], ['G:9'])]
    if tier != 'quick':
        reps.append(((3, 2), ['C:maj', 'G:7', 'G:7'], ['F:maj', 'F']))
    for (size, rl, el) in reps:
        def b(ctx, size=size, rl=rl, el=el):
            inp = E.by_task('chord').build(ctx, size)
            ri, _, ei, _ = inp['args']
            return dict(args=(ri, list(rl), ei, list(el)), kw={})
        js.append(make_job('chord.evaluate[%s,repeated neighbouring chords %s|%s]' % ('x'.join(map(str, size)), ','.join(rl), ','.join(el)),
                           ['chord.evaluate', 'chord.merge_chord_intervals'], b, (lambda a: E.by_task('chord').call(a)), exact_floats=False))
        js.append(make_job('chord.merge_chord_intervals[%s]' % ','.join(rl), ['chord.merge_chord_intervals'], b,
                           (lambda a: CHORD.merge_chord_intervals(a['args'][0], a['args'][1])), exact_floats=False))
    # adjust_intervals / adjust_events with label lists (t_min/t_max variants incl. None)
    for tmin in ('sym', 'none'):
        for tmax in ('sym', 'none'):
            def b(ctx, tmin=tmin, tmax=tmax):
                from .c13 import ordered_intervals
                iv = ordered_intervals(ctx, 'i', 2)
                d = dict(iv=iv, labels=['a', 'b'], t_min=None, t_max=None)
                if tmin == 'sym':
                    d['t_min'] = ctx.real('t_min')
                    ctx.assume(d['t_min'] >= 0)
                if tmax == 'sym':
                    d['t_max'] = ctx.real('t_max')
                    ctx.assume(d['t_max'] > (d['t_min'] if d['t_min'] is not None else 0))
                return d
            js.append(make_job('util.adjust_intervals[t_min=%s,t_max=%s]' % (tmin, tmax), ['util.adjust_intervals'], b,
                               lambda a: U.adjust_intervals(a['iv'], a['labels'], a['t_min'], a['t_max'])))

            def b2(ctx, tmin=tmin, tmax=tmax):
                ev = C.events(ctx, 'e', 2, strict=True)
                d = dict(ev=ev, labels=['a', 'b'], t_min=None, t_max=None)
                if tmin == 'sym':
                    d['t_min'] = ctx.real('t_min')
                    ctx.assume(d['t_min'] >= 0)
                if tmax == 'sym':
                    d['t_max'] = ctx.real('t_max')
                    ctx.assume(d['t_max'] > (d['t_min'] if d['t_min'] is not None else 0))
                return d
            js.append(make_job('util.adjust_events[t_min=%s,t_max=%s]' % (tmin, tmax), ['util.adjust_events'], b2,
                               lambda a: U.adjust_events(a['ev'], a['labels'], a['t_min'], a['t_max'])))

    def b3(ctx):
        x, _ = C.contiguous_intervals(ctx, 'x', 2, start=0.0, end=ctx.real('T'))
        y, _ = C.contiguous_intervals(ctx, 'y', 2, start=0.0, end=x[1, 1])
        return dict(x=x, xl=['a', 'b'], y=y, yl=['c', 'd'])
    js.append(make_job('util.merge_labeled_intervals', ['util.merge_labeled_intervals'], b3,
                       lambda a: U.merge_labeled_intervals(a['x'], a['xl'], a['y'], a['yl'])))

    # melody.freq_to_voicing / to_cent_voicing with caller-supplied voicing arrays
    for n in ((1, 2) if tier == 'quick' else (1, 2, 3)):
        def b4(ctx, n=n):
            f = [ctx.real('f%d' % i) for i in range(n)]
            v = [ctx.real('v%d' % i) for i in range(n)]
            for x in v:
                ctx.assume(x >= 0)
                ctx.assume(x <= 1)
            return dict(f=S.array(f), v=S.array(v))
        js.append(make_job('melody.freq_to_voicing[%d]' % n, ['melody.freq_to_voicing'], b4, lambda a: MEL.freq_to_voicing(a['f'], a['v'])))

        def b5(ctx, n=n):
            d = E._b_melody(ctx, (n, 0))
            rt, rf, et, ef = d['args']
            ev = [ctx.real('ev%d' % i) for i in range(n)]
            rr = [ctx.real('rr%d' % i) for i in range(n)]
            for x in ev + rr:
                ctx.assume(x >= 0)
                ctx.assume(x <= 1)
            return dict(rt=rt, rf=rf, et=et, ef=ef, ev=S.array(ev), rr=S.array(rr))
        js.append(make_job('melody.evaluate[est_voicing,ref_reward,%d]' % n, ['melody.evaluate', 'melody.to_cent_voicing', 'melody.freq_to_voicing'], b5,
                           lambda a: MEL.evaluate(a['rt'], a['rf'], a['et'], a['ef'], est_voicing=a['ev'], ref_reward=a['rr']), exact_floats=False))
    # resampling with time stamps that are NOT on a lattice on which rounding to 10 decimals is the identity
    for n in ((2,) if tier == 'quick' else (2, 3)):
        def b6(ctx, n=n):
            t = C.events(ctx, 't', n, strict=True, hi=10)
            u = C.events(ctx, 'u', n, strict=True, hi=10)
            f = S._wrap(np.array([220.0, 440.0, 330.0][:n]))
            v = S._wrap(np.array([1.0, 1.0, 0.0][:n]))
            return dict(t=t, f=f, v=v, u=u)
        js.append(make_job('melody.resample_melody_series[%d frames, free real times]' % n, ['melody.resample_melody_series'], b6,
                           lambda a: MEL.resample_melody_series(a['t'], a['f'], a['v'], a['u'], kind='nearest'), exact_floats=False, timeout_s=1800))
    return js


# ---------------------------------------------------------------- order of calls across tasks

def _module_state():
    """deep copies of every mutable module-level container of the mir_eval modules (what a fresh interpreter starts from)"""
    import copy
    import sys
    st = {}
    for mn, mod in list(sys.modules.items()):
        if mn != 'mir_eval' and not mn.startswith('mir_eval.'):
            continue
        for k, v in list(vars(mod).items()):
            if k.startswith('__'):
                continue
            if isinstance(v, (dict, list, set)):
                try:
                    st[(mn, k)] = (v, copy.deepcopy(v))
                except Exception:
                    pass
    return st


def _restore_module_state(st):
    for (mn, k), (obj, saved) in st.items():
        import copy
        fresh = copy.deepcopy(saved)
        if isinstance(obj, dict):
            dict.clear(obj)
            dict.update(obj, fresh)
        elif isinstance(obj, list):
            obj[:] = fresh
        else:
            obj.clear()
            obj.update(fresh)


import mir_eval   # noqa: E402  (all task modules are imported above; nothing has been called yet)
_PRISTINE = _module_state()


def interleave_job(first, then, size_first, size_then, kw_then):
    """the result of task `then`'s evaluate() does not depend on whether task `first`'s evaluate() ran before it in the same
    interpreter; the two histories are run from the same (restored) module state"""
    ev_a, ev_b = E.by_task(first), E.by_task(then)

    def build(ctx):
        # the first task only has to run (its result is not compared): concrete arguments where a set is listed
        a = dict(args=FIRST_ARGS[first](), kw={}) if first in FIRST_ARGS else ev_a.build(ctx, size_first)
        b = ev_b.build(ctx, size_then)
        kw = {}
        for k, spec in kw_then.items():
            if spec == 'posreal':
                kw[k] = T.posreal(ctx, 'kw_' + k)
            else:
                kw[k] = spec
        return dict(a=a, b=b, kw=kw)

    def body(A, inp):
        a_inp = inp['a']
        if A.sym and first in FIRST_ARGS:
            a_inp = dict(args=tuple(S._wrap(x) if isinstance(x, np.ndarray) else x for x in a_inp['args']), kw={})
        st = _PRISTINE
        _restore_module_state(st)
        try:
            s1, r1 = A.call(lambda: ev_b.call(inp['b'], kw=inp['kw']))
            _restore_module_state(st)
            s0, _ = A.call(lambda: ev_a.call(a_inp))
            s2, r2 = A.call(lambda: ev_b.call(inp['b'], kw=inp['kw']))
        finally:
            _restore_module_state(st)
        A.observe('status', (s0, s1, s2))
        if s1 != 'ok' or s0 != 'ok':
            return
        A.require(s2 == 'ok' and same_result(A, r1, r2), '%s.evaluate:same-result-whether-or-not-%s.evaluate-ran-before' % (then, first))
    return Job('C15', 'interleave[%s.evaluate then %s.evaluate(%s)]' % (first, then, ','.join(sorted(kw_then))), build, body,
               funcs=ev_a.funcs + ev_b.funcs + ['util.filter_kwargs'], exact_floats=False, timeout_s=900, fresh_empty=True, exc_policy='body')


FIRST_ARGS = {
    'beat': lambda: (np.array([6.0, 7.0, 8.0]), np.array([6.1, 7.0, 8.5])),
    'onset': lambda: (np.array([1.0, 2.0]), np.array([1.01, 2.5])),
    'segment': lambda: (np.array([[0.0, 1.0], [1.0, 2.0]]), ['a', 'b'], np.array([[0.0, 1.5], [1.5, 2.0]]), ['a', 'c']),
    'tempo': lambda: (np.array([60.0, 120.0]), 0.5, np.array([61.0, 180.0])),
    'chord': lambda: (np.array([[0.0, 1.0], [1.0, 2.0]]), ['C:maj', 'G:7'], np.array([[0.0, 2.0]]), ['C:maj']),
}

INTERLEAVE = [
    ('beat', 'onset', (1, 1), (1, 1), {'window': 'posreal'}),
    ('onset', 'beat', (1, 1), (1, 1), {'f_measure_threshold': 'posreal'}),
    ('tempo', 'segment', (2, 2), (1, 1, 1.0), {'beta': 'posreal'}),
    ('segment', 'tempo', (1, 1, 1.0), (2, 2), {'tol': 0.2}),
    ('onset', 'transcription', (1, 1), (1, 1), {'onset_tolerance': 'posreal'}),
    ('melody', 'multipitch', (1, 0), (1, 1), {'window': 'posreal'}),
    ('chord', 'key', (1, 1), (4, 4), {}),
]


def jobs(tier):
    js = []
    q = tier == 'quick'
    for spec in T.SPECS + T.structure_specs(tier):
        sizes = spec.sizes[tier]
        if q:
            sizes = sizes[-2:]
        for size in sizes:
            js.append(make_job('%s[%s]' % (spec.name, 'x'.join(map(str, size))), spec.funcs,
                               (lambda ctx, spec=spec, size=size: spec.build(ctx, size)),
                               (lambda a, spec=spec: spec.call(a)), exact_floats=spec.exact_floats, timeout_s=spec.timeout_s))
    for ev in E.EVALS:
        sizes = ev.sizes[tier]
        if q:
            sizes = sizes[-2:]
        for size in sizes:
            js.append(make_job('%s.evaluate[%s]' % (ev.task, 'x'.join(map(str, size))), ev.funcs,
                               (lambda ctx, ev=ev, size=size: ev.build(ctx, size)),
                               (lambda a, ev=ev: ev.call(a)), exact_floats=ev.exact_floats, timeout_s=ev.timeout_s))
    js += helper_jobs(tier)
    for spec in (INTERLEAVE[:6] if q else INTERLEAVE):
        js.append(interleave_job(*spec))
    return js
