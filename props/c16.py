"""C16 - segment labelling scores equal their clustering-index definitions."""
import math
from fractions import Fraction

import numpy as np

import mir_eval.segment as SEG
import mir_eval.util as U

from symx import core as S
from symx.harness import Job
from . import common as C
from . import tasks as T

META = dict(
    explanation="pairwise, rand_index, ari, mutual_information, nce and vmeasure run end to end (validate_structure -> intervals_to_samples -> "
                "index_labels -> contingency -> index) on symbolic boundaries.  Per path (a region of boundary space): (1) for every frame k the label "
                "the code assigned must be the label of the interval containing k*frame_size - a solver obligation over the whole region; (2) the "
                "returned numbers equal the textbook formulas evaluated independently (exact fractions + math.log) on the contingency table of the "
                "frame labels given by the definition; (3) vmeasure == nce(marginal=True), MI symmetric, V = harmonic mean, ARI = 1 for coinciding partitions.",
    bounds="<=2+2 segments, <=4 frames (quick) / <=3+3, <=8 frames (thorough); frame sizes 0.5 / 0.25 / 0.1; beta symbolic where the result is; label "
           "patterns: set partitions incl. case variants; boundaries on the 1e-5 lattice",
    stubs=["scipy.sparse.coo_matrix dense stand-in; scipy.stats.entropy / special.comb / gammaln real SciPy on concrete data"],
    assumptions=["after obligation (1) the indices are concrete per path: the solver's role is the exhaustive partition of boundary space and (1)"],
)


def frame_labels_by_definition(A, iv, labels, fs, nframes):
    """for frame k at time k*fs: the (lower-cased) label of the last interval whose closed span contains it.
    Returns per-frame list of candidate conditions so the caller can assert the code's label is right."""
    out = []
    for k in range(nframes):
        t = float(np.float32(k)) * fs
        conds = []
        for i in range(len(labels)):
            inside = A.And(A.xle(iv[i, 0], t), A.xle(t, iv[i, 1]))
            later = False
            for i2 in range(i + 1, len(labels)):
                later = A.Or(later, A.And(A.xle(iv[i2, 0], t), A.xle(t, iv[i2, 1])))
            conds.append(A.And(inside, A.Not(later)))
        out.append(conds)
    return out


# ---------------------------------------------------------------- textbook formulas on label sequences

def contingency(y1, y2):
    c1 = sorted(set(y1))
    c2 = sorted(set(y2))
    M = [[0] * len(c2) for _ in c1]
    for a, b in zip(y1, y2):
        M[c1.index(a)][c2.index(b)] += 1
    return M


def comb2(n):
    return n * (n - 1) // 2


def ref_pairwise(y1, y2, beta):
    n = len(y1)
    M = contingency(y1, y2)
    a = sum(comb2(sum(r)) for r in M)
    b = sum(comb2(sum(M[i][j] for i in range(len(M)))) for j in range(len(M[0]))) if M else 0
    m = sum(comb2(x) for r in M for x in r)
    if a == 0 or b == 0:
        return None
    p, r = Fraction(m, b), Fraction(m, a)
    return p, r, fmeasure(p, r, beta)


def fmeasure(p, r, beta):
    if p == 0 and r == 0:
        return 0.0
    if S.is_sym(beta):
        p, r = float(p), float(r)
    return (1 + beta ** 2) * p * r / (beta ** 2 * p + r)


def ref_rand(y1, y2):
    n = len(y1)
    if n < 2:
        return None
    agree = 0
    for i in range(n):
        for j in range(i + 1, n):
            if (y1[i] == y1[j]) == (y2[i] == y2[j]):
                agree += 1
    return Fraction(agree, comb2(n))


def ref_ari(y1, y2):
    n = len(y1)
    M = contingency(y1, y2)
    k1, k2 = len(M), len(M[0]) if M else 0
    if (k1 == k2 == 1) or (k1 == k2 == 0) or (k1 == k2 == n):
        return 1.0
    sc = sum(comb2(sum(r)) for r in M)
    sk = sum(comb2(sum(M[i][j] for i in range(k1))) for j in range(k2))
    s = sum(comb2(x) for r in M for x in r)
    exp_ = Fraction(sc * sk, comb2(n))
    mx = Fraction(sc + sk, 2)
    if mx == exp_:
        return None
    return (s - exp_) / (mx - exp_)


def entropy(counts, base=math.e):
    n = sum(counts)
    return -sum((c / n) * math.log(c / n, base) for c in counts if c > 0)


def ref_mi(y1, y2):
    n = len(y1)
    M = contingency(y1, y2)
    a = [sum(r) for r in M]
    b = [sum(M[i][j] for i in range(len(M))) for j in range(len(M[0]))]
    mi = 0.0
    for i in range(len(M)):
        for j in range(len(M[0])):
            if M[i][j]:
                mi += (M[i][j] / n) * math.log(n * M[i][j] / (a[i] * b[j]))
    return mi, a, b


def ref_emi(a, b, n):
    emi = 0.0
    for ai in a:
        for bj in b:
            for nij in range(max(1, ai + bj - n), min(ai, bj) + 1):
                t = (nij / n) * math.log(n * nij / (ai * bj))
                lg = (math.lgamma(ai + 1) + math.lgamma(bj + 1) + math.lgamma(n - ai + 1) + math.lgamma(n - bj + 1) - math.lgamma(n + 1) - math.lgamma(nij + 1)
                      - math.lgamma(ai - nij + 1) - math.lgamma(bj - nij + 1) - math.lgamma(n - ai - bj + nij + 1))
                emi += t * math.exp(lg)
    return emi


def ref_nce(y1, y2, beta, marginal):
    """y1 reference, y2 estimate.  over = 1 - H(est | ref)/norm_est ; under = 1 - H(ref | est)/norm_ref"""
    n = len(y1)
    M = contingency(y1, y2)
    k1, k2 = len(M), len(M[0])
    a = [sum(r) for r in M]
    b = [sum(M[i][j] for i in range(k1)) for j in range(k2)]
    h_ref_given_est = sum((b[j] / n) * entropy([M[i][j] for i in range(k1)], 2) for j in range(k2))
    h_est_given_ref = sum((a[i] / n) * entropy(M[i], 2) for i in range(k1))
    z_ref = entropy(a, 2) if marginal else math.log2(k1)
    z_est = entropy(b, 2) if marginal else math.log2(k2)
    under = 1.0 - h_ref_given_est / z_ref if z_ref > 0 else 0.0
    over = 1.0 - h_est_given_ref / z_est if z_est > 0 else 0.0
    return over, under, fmeasure(over, under, beta)


def close(A, got, want, tol=1e-9):
    if want is None:
        return True
    if S.is_sym(got) or S.is_sym(want):
        w = want if S.is_sym(want) else float(want)
        d = S._b_sub(got, w)
        return A.And(A.xle(d, tol), A.xge(d, -tol))
    g, w = float(got), float(want)
    if math.isnan(g) or math.isnan(w):
        return math.isnan(g) and math.isnan(w)
    return abs(g - w) <= tol * max(1.0, abs(w))


def make_job(n, m, rl, el, fs, maxT, beta_sym):
    build0 = T.b_structure(fs, maxT, rl, el, beta=False)

    def build(ctx):
        d = build0(ctx, (n, m))
        if beta_sym:
            d['beta'] = T.posreal(ctx, 'beta', 4)
        return d

    def body(A, inp):
        ri, rlab = inp['ref']
        ei, elab = inp['est']
        beta = inp.get('beta', 1.0)
        # frames as the code samples them
        y_ref_code = [str(x).lower() for x in U.intervals_to_samples(ri, list(rlab), sample_size=fs)[1]]
        y_est_code = [str(x).lower() for x in U.intervals_to_samples(ei, list(elab), sample_size=fs)[1]]
        K = len(y_ref_code)
        A.observe('frames', K)
        A.observe('ref_frames', y_ref_code)
        A.observe('est_frames', y_est_code)
        A.require(len(y_est_code) == K, 'frames:same-count-on-both-sides')
        # (1) the assigned label is the definitional one, for the whole region of boundary space of this path
        T_end = ri[n - 1, 1]
        A.require(A.And(A.xle(K * fs, T_end), A.xlt(T_end, (K + 1) * fs)), 'frames:count==floor(T/frame_size)')
        for (iv, labs, ycode, tag) in ((ri, rlab, y_ref_code, 'ref'), (ei, elab, y_est_code, 'est')):
            defs = frame_labels_by_definition(A, iv, labs, fs, min(K, len(ycode)))
            ok = True
            for k in range(min(K, len(ycode))):
                c = False
                for i, lab in enumerate(labs):
                    if str(lab).lower() == ycode[k]:
                        c = A.Or(c, defs[k][i])
                ok = A.And(ok, c)
            A.require(ok, 'frames:%s-label-is-label-of-containing-interval' % tag)
        y1, y2 = y_ref_code, y_est_code
        if K == 0:
            A.reach('no-frames')
            return
        # (2) textbook formulas
        pw = SEG.pairwise(ri, list(rlab), ei, list(elab), frame_size=fs, beta=beta)
        want = ref_pairwise(y1, y2, beta)
        if want is not None:
            for i, nm in enumerate(('P', 'R', 'F')):
                A.observe('pairwise.' + nm, pw[i])
                A.require(close(A, pw[i], want[i]), 'pairwise.%s==definition' % nm)
        ri_ = SEG.rand_index(ri, list(rlab), ei, list(elab), frame_size=fs)
        A.require(close(A, ri_, ref_rand(y1, y2)), 'rand_index==definition')
        ar = SEG.ari(ri, list(rlab), ei, list(elab), frame_size=fs)
        A.require(close(A, ar, ref_ari(y1, y2)), 'ari==definition')
        if sorted(map(sorted, _partition(y1))) == sorted(map(sorted, _partition(y2))):
            A.require(close(A, ar, 1.0), 'ari==1-for-coinciding-partitions')
        mi, ami, nmi = SEG.mutual_information(ri, list(rlab), ei, list(elab), frame_size=fs)
        wmi, a, b = ref_mi(y1, y2)
        A.require(close(A, mi, wmi), 'mutual_information.MI==definition')
        mi_sw = SEG.mutual_information(ei, list(elab), ri, list(rlab), frame_size=fs)[0]
        A.require(close(A, mi, mi_sw), 'mutual_information:MI(a,b)==MI(b,a)')
        h1, h2 = entropy(a), entropy(b)
        if len(a) == len(b) == 1:
            A.require(close(A, ami, 1.0) and close(A, nmi, 1.0), 'mutual_information:single-cluster-convention')
        else:
            emi = ref_emi(a, b, K)
            den = max(h1, h2) - emi
            if abs(den) > 1e-12:
                A.require(close(A, ami, (wmi - emi) / den, 1e-7), 'mutual_information.AMI==definition')
            if h1 > 0 and h2 > 0:      # with a single cluster on one side the textbook NMI is 0/0 (not asserted)
                A.require(close(A, nmi, wmi / math.sqrt(h1 * h2), 1e-7), 'mutual_information.NMI==definition')
        for marginal, fn, tag in ((False, lambda **k: SEG.nce(ri, list(rlab), ei, list(elab), frame_size=fs, **k), 'nce'),
                                  (True, lambda **k: SEG.vmeasure(ri, list(rlab), ei, list(elab), frame_size=fs, **k), 'vmeasure')):
            got = fn(beta=beta)
            w = ref_nce(y1, y2, beta, marginal)
            for i, nm in enumerate(('over', 'under', 'F')):
                A.observe('%s.%s' % (tag, nm), got[i])
                A.require(close(A, got[i], w[i], 1e-9), '%s.%s==definition' % (tag, nm))
        vm = SEG.vmeasure(ri, list(rlab), ei, list(elab), frame_size=fs, beta=beta)
        nm_ = SEG.nce(ri, list(rlab), ei, list(elab), frame_size=fs, beta=beta, marginal=True)
        A.require(A.And(A.eq(vm[0], nm_[0]), A.eq(vm[1], nm_[1]), A.eq(vm[2], nm_[2])), 'vmeasure==nce(marginal=True)')
        # V (beta=1) is the harmonic mean of its precision and recall
        v1 = SEG.vmeasure(ri, list(rlab), ei, list(elab), frame_size=fs)
        if float(v1[0]) + float(v1[1]) > 0:
            A.require(close(A, v1[2], 2 * float(v1[0]) * float(v1[1]) / (float(v1[0]) + float(v1[1]))), 'vmeasure:V==harmonic-mean')
    return Job('C16', 'indices[%s|%s,fs=%s,T<=%s%s]' % (''.join(rl), ''.join(el), fs, maxT, ',beta' if beta_sym else ''), build, body,
               funcs=['segment.pairwise', 'segment.rand_index', 'segment.ari', 'segment.mutual_information', 'segment.nce', 'segment.vmeasure',
                      'segment._contingency_matrix', 'segment._adjusted_rand_index', 'segment._mutual_info_score', 'segment._adjusted_mutual_info_score',
                      'segment._normalized_mutual_info_score', 'segment._entropy', 'util.intervals_to_samples', 'util.index_labels'],
               bounds=dict(ref_segments=n, est_segments=m, frame_size=fs, max_span=maxT), exact_floats=False, timeout_s=2400)


def _partition(y):
    d = {}
    for i, v in enumerate(y):
        d.setdefault(v, []).append(i)
    return list(d.values())


def jobs(tier):
    q = tier == 'quick'
    js = []
    P = T.LABEL_PATTERNS
    combos = []
    if q:
        combos = [(1, 1, ['a'], ['A'], 0.5, 2.0, False), (2, 2, ['a', 'b'], ['A', 'b'], 0.5, 2.0, False), (2, 1, ['a', 'b'], ['x'], 0.5, 2.0, False),
                  (2, 2, ['a', 'B'], ['x', 'x'], 0.5, 2.0, True), (2, 2, ['a', 'b'], ['b', 'a'], 0.25, 1.0, False),
                  # more distinct labels in the estimate than in the reference (a non-square contingency table)
                  (2, 3, ['a', 'b'], ['x', 'y', 'Z'], 0.5, 2.0, False)]
    else:
        for fs, maxT in ((0.5, 2.0), (0.25, 1.0), (0.1, 0.4), (0.5, 4.0)):
            for n, m in ((1, 1), (2, 1), (2, 2), (3, 2), (2, 3), (3, 3)):
                if maxT == 4.0 and (n, m) not in ((2, 2), (3, 2)):
                    continue
                for rl in (P[n] if not (maxT == 4.0 and n == 3) else P[n][:2]):
                    for el in (P[m][:3] if not (maxT == 4.0 and n == 3) else P[m][:1]):
                        el2 = [x.upper() if i == 0 else x for i, x in enumerate(el)]
                        combos.append((n, m, rl, el2, fs, maxT, (n, m) == (2, 2) and fs == 0.5 and maxT == 2.0))
    for c in combos:
        js.append(make_job(*c))
    return js
