"""C17 - hierarchy T-/L-measures equal the triplet-ranking definition."""
import itertools
import math

import numpy as np
import z3

import mir_eval.hierarchy as HIER
import mir_eval.util as U

from symx import core as S
from symx.harness import Job
from . import common as C
from . import tasks as T

META = dict(
    explanation="Kernels, fully symbolic: _compare_frame_rankings / _count_inversions on integer vectors against the double-sum definition "
                "sum_{i,j}[ref_i < ref_j (by one level when reduced) and est_i >= est_j]; _gauc on symbolic LCA matrices against the mean-over-queries "
                "definition (self excluded, window, queries without a reference triple skipped).  End to end: tmeasure / lmeasure on symbolic "
                "boundaries, compared per path with a brute-force triple count over the frame->segment map given by the definition; parameter "
                "validation for symbolic frame_size / window.",
    bounds="vectors of length <=3 (quick) / 4 (thorough) with levels 0..2 / 0..3; _gauc on <=3 / 4 frames, window in {None,1,2}; end to end 2 levels x <=2 "
           "segments, <=4 frames, frame sizes 0.5 / 0.25, window None / 1.0 / 0.5, both transitive settings",
    stubs=["scipy.sparse lil/csr matrices as dense arrays"],
    assumptions=["exact arithmetic for _round(t, frame_size)/frame_size (the float truncation k-eps is outside the claim; witnesses use dyadic frame sizes)"],
)


def spec_counts(A, r, e, transitive):
    n = len(r)
    inv = 0
    norm = 0
    for i in range(n):
        for j in range(n):
            rel = A.xlt(r[i], r[j]) if transitive else A.xeq(r[i] + 1, r[j])
            if A.sym:
                norm = norm + S.SymBool(S._zb(rel))._n()
                inv = inv + S.SymBool(z3.And(S._zb(rel), S._zb(A.xge(e[i], e[j]))))._n()
            else:
                norm += int(bool(rel))
                inv += int(bool(rel) and bool(e[i] >= e[j]))
    return inv, norm


def job_rankings(n, levels):
    def build(ctx):
        r = [ctx.integer('r%d' % i) for i in range(n)]
        e = [ctx.integer('e%d' % i) for i in range(n)]
        for x in r + e:
            ctx.assume(x >= 0)
            ctx.assume(x <= levels)
        return dict(r=S.array(r), e=S.array(e))

    def body(A, inp):
        r, e = inp['r'], inp['e']
        for tr in (False, True):
            inv, norm = HIER._compare_frame_rankings(r, e, transitive=tr)
            winv, wnorm = spec_counts(A, r, e, tr)
            A.observe('norm[%s]' % tr, norm)
            A.observe('inv[%s]' % tr, inv)
            A.require(A.xeq(norm, wnorm), '_compare_frame_rankings[transitive=%s]:normalizer==definition' % tr)
            A.require(A.Or(A.xeq(wnorm, 0), A.xeq(inv, winv)), '_compare_frame_rankings[transitive=%s]:inversions==definition' % tr)
        # _count_inversions(a, b) = #{(x in a, y in b): x >= y}
        k = n // 2 if n > 1 else 1
        a, b = r[:k], e[:n - k] if n - k > 0 else e[:1]
        ci = HIER._count_inversions(a, b)
        want = 0
        for x in a:
            for y in b:
                want = want + (S.SymBool(S._zb(A.xge(x, y)))._n() if A.sym else int(x >= y))
        A.require(A.xeq(ci, want), '_count_inversions==definition')
    return Job('C17', '_compare_frame_rankings[n=%d,levels<=%d]' % (n, levels), build, body,
               funcs=['hierarchy._compare_frame_rankings', 'hierarchy._count_inversions'], bounds=dict(n=n, levels=levels), timeout_s=3000, max_decisions=100000)


def spec_gauc(A, R, E, transitive, window):
    """mean over queries q of 1 - inversions/normalizer over candidate frames within the window (q excluded), queries with normalizer 0 skipped"""
    n = len(R)
    if window is None:
        window = n
    total = 0
    cnt = 0
    for q in range(n):
        cand = [i for i in range(max(0, q - window), min(n, q + window)) if i != q]
        r = [R[q][i] for i in cand]
        e = [E[q][i] for i in cand]
        inv, norm = spec_counts(A, r, e, transitive)
        yield q, inv, norm


def job_gauc(n, levels, window, transitive):
    def build(ctx):
        def mat(tag):
            M = [[None] * n for _ in range(n)]
            for i in range(n):
                for j in range(i, n):
                    v = ctx.integer('%s%d_%d' % (tag, i, j))
                    ctx.assume(v >= 0)
                    ctx.assume(v <= levels)
                    M[i][j] = M[j][i] = v
            return S.array(M)
        return dict(R=mat('r'), E=mat('e'))

    def body(A, inp):
        from symx import stubs
        R, E = inp['R'], inp['E']
        if A.sym:
            g = HIER._gauc(stubs.DenseMatrix(R), stubs.DenseMatrix(E), transitive, window)
        else:
            import scipy.sparse
            g = HIER._gauc(scipy.sparse.csr_matrix(np.asarray(R, dtype=float)), scipy.sparse.csr_matrix(np.asarray(E, dtype=float)), transitive, window)
        A.observe('gauc', g)
        # definition (per path the normalizers are decided, so the mean is a term)
        score = 0
        cnt = 0
        for q, inv, norm in spec_gauc(A, R, E, transitive, window):
            if A.sym:
                nz = bool(S._b_cmp('ne')(norm, 0))
            else:
                nz = norm != 0
            if nz:
                score = score + (1.0 - inv / norm) if A.sym else score + (1.0 - inv / float(norm))
                cnt += 1
        want = (score / float(cnt)) if cnt else 0.0
        A.require(A.eq(g, want), '_gauc==mean-over-queries-definition')
        A.require(A.in01(g), '_gauc-in-[0,1]')
    return Job('C17', '_gauc[n=%d,levels<=%d,window=%s,transitive=%s]' % (n, levels, window, transitive), build, body,
               funcs=['hierarchy._gauc', 'hierarchy._compare_frame_rankings'], bounds=dict(frames=n), timeout_s=3000, max_decisions=200000)


# ---------------------------------------------------------------- end to end

def frame_segments(A, hier, fs, nfr):
    """for each level and frame f (covering [f*fs,(f+1)*fs)): index of the segment s with round(start) <= f*fs < round(end), as conditions"""
    out = []
    for iv in hier:
        lvl = []
        for f in range(nfr):
            t = f * fs
            conds = []
            for s in range(len(iv)):
                # frame f belongs to segment s  <=>  floor(start/fs) <= f < floor(end/fs)
                conds.append(A.And(A.xlt(iv[s, 0], (f + 1) * fs), A.xge(iv[s, 1], (f + 1) * fs)))
            lvl.append(conds)
        out.append(lvl)
    return out


def brute_tmeasure(ref_seg, est_seg, nfr, transitive, window, beta=1.0):
    """ref_seg[level][frame] -> segment index (concrete); LCA depth of (i,j) = deepest level (1-based) where both lie in one segment"""
    def lca(seg):
        M = [[0] * nfr for _ in range(nfr)]
        for lv, s in enumerate(seg, 1):
            for i in range(nfr):
                for j in range(nfr):
                    if s[i] is not None and s[i] == s[j]:
                        M[i][j] = lv
        return M

    def gauc(R, E):
        w = nfr if window is None else window
        tot, cnt = 0.0, 0
        for q in range(nfr):
            cand = [i for i in range(max(0, q - w), min(nfr, q + w)) if i != q]
            norm = inv = 0
            for i in cand:
                for j in cand:
                    rel = (R[q][i] < R[q][j]) if transitive else (R[q][i] + 1 == R[q][j])
                    if rel:
                        norm += 1
                        if E[q][i] >= E[q][j]:
                            inv += 1
            if norm:
                tot += 1.0 - inv / norm
                cnt += 1
        return tot / cnt if cnt else 0.0
    R, E = lca(ref_seg), lca(est_seg)
    rec = gauc(R, E)
    prec = gauc(E, R)
    f = 0.0 if (prec == 0 and rec == 0) else (1 + beta ** 2) * prec * rec / (beta ** 2 * prec + rec)
    return prec, rec, f


def job_tmeasure(size, fs, maxT, window, transitive, counts=None, beta=None):
    if counts is not None:
        b = T.b_hier_counts(counts[0], counts[1], fs, maxT, window='none' if window is None else window, transitive=transitive)
        size = counts
    else:
        b = T.b_hier(2, fs, maxT, window='none' if window is None else window, transitive=transitive)

    def build(ctx):
        return b(ctx, size)

    def body(A, inp):
        rh, eh = inp['ref'][0], inp['est'][0]
        kw = dict(inp['kw'])
        if beta is not None:
            kw['beta'] = beta
        res = HIER.tmeasure(rh, eh, **kw)
        for nm, v in zip(('P', 'R', 'F'), res):
            A.observe(nm, v)
            A.require(A.in01(v), 'tmeasure.%s-in-[0,1]' % nm)
        # number of frames: floor(T/fs) (exact arithmetic)
        T_end = rh[0][len(rh[0]) - 1, 1]
        nfr = 0
        while bool(A.xle((nfr + 1) * fs, T_end)):
            nfr += 1
        wf = None if window is None else int(math.floor(window / fs + 1e-9))
        # frame -> segment maps by definition; the code's LCA is concrete per path, so we recover the map by deciding membership
        segs = []
        for hier in (rh, eh):
            lv_maps = []
            for iv in hier:
                m = []
                for f in range(nfr):
                    found = None
                    for s in range(len(iv)):
                        # frame f in [floor(start/fs), floor(end/fs))
                        lo = A.xlt(iv[s, 0], (f + 1) * fs)      # floor(start/fs) <= f
                        hi = A.xge(iv[s, 1], (f + 1) * fs)      # f < floor(end/fs)
                        if bool(A.And(lo, hi)):
                            found = s if found is None else found
                    m.append(found)
                lv_maps.append(m)
            segs.append(lv_maps)
        want = brute_tmeasure(segs[0], segs[1], nfr, transitive, wf, beta if beta is not None else 1.0)
        for nm, v, w in zip(('P', 'R', 'F'), res, want):
            A.require(A.eq(v, w), 'tmeasure.%s==triplet-definition' % nm, want=w)
    return Job('C17', 'tmeasure[%s,fs=%s,T<=%s,window=%s,transitive=%s%s]' % ('x'.join(map(str, size)) if counts is None else 'levels ref %s est %s (not nec. nested)' % counts, fs, maxT, window, transitive, '' if beta is None else ',beta=%s' % beta), build, body,
               funcs=['hierarchy.tmeasure', 'hierarchy._lca', 'hierarchy._gauc', 'hierarchy._compare_frame_rankings', 'hierarchy._round',
                      'hierarchy.validate_hier_intervals'], bounds=dict(size=size, frame_size=fs, max_span=maxT), exact_floats=False, timeout_s=3000)


def brute_lmeasure(ref_seg, ref_lab, est_seg, est_lab, nfr, beta=1.0):
    def meet(seg, lab):
        M = [[0] * nfr for _ in range(nfr)]
        for lv, (s, l) in enumerate(zip(seg, lab), 1):
            for i in range(nfr):
                for j in range(nfr):
                    if s[i] is not None and s[j] is not None and str(l[s[i]]).lower() == str(l[s[j]]).lower():
                        M[i][j] = lv
        return M
    R, E = meet(ref_seg, ref_lab), meet(est_seg, est_lab)

    def gauc(R, E):
        tot, cnt = 0.0, 0
        for q in range(nfr):
            cand = [i for i in range(nfr) if i != q]
            norm = inv = 0
            for i in cand:
                for j in cand:
                    if R[q][i] < R[q][j]:
                        norm += 1
                        if E[q][i] >= E[q][j]:
                            inv += 1
            if norm:
                tot += 1.0 - inv / norm
                cnt += 1
        return tot / cnt if cnt else 0.0
    rec, prec = gauc(R, E), gauc(E, R)
    f = 0.0 if (prec == 0 and rec == 0) else (1 + beta ** 2) * prec * rec / (beta ** 2 * prec + rec)
    return prec, rec, f


def frame_maps(A, hier, fs, nfr):
    """per level: frame -> index of the segment that contains it (decided on the path), None outside every segment"""
    lv_maps = []
    for iv in hier:
        m = []
        for f in range(nfr):
            found = None
            for s in range(len(iv)):
                if bool(A.And(A.xlt(iv[s, 0], (f + 1) * fs), A.xge(iv[s, 1], (f + 1) * fs))):
                    found = s if found is None else found
            m.append(found)
        lv_maps.append(m)
    return lv_maps


def n_frames(A, hier, fs):
    T_end = hier[0][len(hier[0]) - 1, 1]
    nfr = 0
    while bool(A.xle((nfr + 1) * fs, T_end)):
        nfr += 1
    return nfr


def job_lmeasure(size, fs, maxT, counts=None, beta=None):
    if counts is not None:
        b = T.b_hier_counts(counts[0], counts[1], fs, maxT, labels='repeat')
        size = counts
    else:
        b = T.b_hier(2, fs, maxT, labels='repeat')

    def build(ctx):
        return b(ctx, size)

    def body(A, inp):
        rh, rl = inp['ref']
        eh, el = inp['est']
        kw = dict(inp['kw'])
        if beta is not None:
            kw['beta'] = beta
        res = HIER.lmeasure(rh, rl, eh, el, **kw)
        for nm, v in zip(('P', 'R', 'F'), res):
            A.observe(nm, v)
            A.require(A.in01(v), 'lmeasure.%s-in-[0,1]' % nm)
        nfr = n_frames(A, rh, fs)
        segs = [frame_maps(A, hier, fs, nfr) for hier in (rh, eh)]
        want = brute_lmeasure(segs[0], rl, segs[1], el, nfr, beta if beta is not None else 1.0)
        for nm, v, w in zip(('P', 'R', 'F'), res, want):
            A.require(A.eq(v, w), 'lmeasure.%s==label-agreement-triplet-definition' % nm, want=w)
    return Job('C17', 'lmeasure[%s,fs=%s,T<=%s%s]' % ('x'.join(map(str, size)) if counts is None else 'levels ref %s est %s (not nec. nested)' % counts, fs, maxT, '' if beta is None else ',beta=%s' % beta), build, body,
               funcs=['hierarchy.lmeasure', 'hierarchy._meet', 'hierarchy._gauc'], bounds=dict(size=size, frame_size=fs), exact_floats=False, timeout_s=3000)


def job_params():
    def build(ctx):
        fs = ctx.real('frame_size')
        win = ctx.real('window')
        ctx.assume(win > 0)
        ctx.assume(S._lor(fs <= 0, fs > win))
        return dict(fs=fs, win=win)

    def body(A, inp):
        h = [np.array([[0.0, 2.0]]), np.array([[0.0, 1.0], [1.0, 2.0]])]
        st, v = A.call(HIER.tmeasure, h, h, frame_size=inp['fs'], window=inp['win'])
        A.require(st == 'exc' and isinstance(v, ValueError), 'tmeasure:rejects-frame_size<=0-or->window')
    return Job('C17', 'tmeasure[parameter validation]', build, body, funcs=['hierarchy.tmeasure'], exc_policy='body')


def jobs(tier):
    q = tier == 'quick'
    js = [job_rankings(2, 2), job_rankings(3, 2)]
    if not q:
        js += [job_rankings(4, 2), job_rankings(3, 3), job_rankings(4, 3)]
    for (n, lv, w, tr) in ([(3, 2, None, False), (3, 2, 1, True)] if q else
                           [(3, 2, None, False), (3, 2, 1, True), (3, 2, None, True), (4, 2, 2, False), (4, 2, 2, True), (4, 2, 1, False)]):
        js.append(job_gauc(n, lv, w, tr))
    cfg = [((2, 2), 0.5, 2.0, None, False), ((2, 2), 0.5, 2.0, 1.0, True)] if q else \
          [((2, 2), 0.5, 2.0, None, False), ((2, 2), 0.5, 2.0, 1.0, True), ((2, 2), 0.5, 2.0, None, True), ((2, 2), 0.5, 2.0, 0.5, False),
           ((3, 2), 0.5, 2.0, None, False), ((2, 3), 0.25, 1.0, 0.5, True), ((2, 2), 0.5, 3.0, 1.0, False)]
    for c in cfg:
        js.append(job_tmeasure(*c))
    # hierarchies that need not be nested (a deeper segment may straddle a shallower boundary); three levels in thorough
    for (counts, fs, maxT, w, tr) in ([(((2, 2), (1, 2)), 0.5, 2.0, None, False)] if q else
                                      [(((2, 2), (1, 2)), 0.5, 2.0, None, False), (((2, 2), (2, 2)), 0.5, 2.0, 1.0, True), (((1, 2, 2), (1, 2)), 0.5, 2.0, None, False),
                                       (((2, 3), (1, 2)), 0.5, 2.0, None, True)]):
        js.append(job_tmeasure(None, fs, maxT, w, tr, counts=counts))
    for c in ([((2, 2), 0.5, 2.0)] if q else [((2, 2), 0.5, 2.0), ((3, 2), 0.5, 2.0), ((2, 2), 0.25, 1.0), ((2, 3), 0.5, 3.0)]):
        js.append(job_lmeasure(*c))
    # label-agreement depths that are not adjacent (two segments at the top level: frames that share only the deeper label)
    for counts in ([((2, 2), (1, 2))] if q else [((2, 2), (1, 2)), ((2, 2), (2, 2)), ((2, 3), (1, 2)), ((1, 2, 2), (1, 2))]):
        js.append(job_lmeasure(None, 0.5, 2.0, counts=counts))
    # a non-default beta (F_beta weights recall beta times as much as precision)
    js.append(job_tmeasure((2, 2), 0.5, 2.0, None, False, beta=2.0))
    js.append(job_lmeasure((2, 2), 0.5, 2.0, beta=0.5))
    js.append(job_params())
    return js
