"""C18 - multipitch error accounting is exhaustive and consistent."""
import numpy as np
import z3

import mir_eval.multipitch as MP

from symx import core as S
from symx.harness import Job
from . import common as C

META = dict(
    explanation="multipitch.compute_accuracy / compute_err_score on symbolic integer count arrays (unbounded counts); "
                "compute_num_true_positives on symbolic frequencies (raw and chroma on the same frames); resample_multipitch and "
                "metrics() end to end with differing symbolic time bases through the interp1d(nearest) stub.",
    bounds="accounting: 2/3 frames quick, 4 thorough, counts unbounded integers; per-frame matching 2x2 (3x3 thorough); "
           "resampling <=3 estimate times x <=3 reference times; metrics() 2 frames x 1-2 frequencies",
    stubs=["scipy.interpolate.interp1d(kind='nearest', bounds_error=False, fill_value): nearest sample, ties to the left sample (SciPy convention), "
           "fill outside the range; cross-validated against real SciPy on every path witness",
           "np.log2 on log-domain frequency variables rewrites to the exponent"],
    assumptions=["frequencies are log-domain variables f = 2**l; the chroma wrap uses exact real mod"],
)


def int_array(ctx, name, n):
    return S.array([ctx.integer("%s%d" % (name, i)) for i in range(n)])


def job_accounting(F):
    def build(ctx):
        nr, ne, tp, tc = (int_array(ctx, k, F) for k in ('nref', 'nest', 'tp', 'tc'))
        for i in range(F):
            ctx.assume(nr[i] >= 0)
            ctx.assume(ne[i] >= 0)
            ctx.assume(tp[i] >= 0)
            ctx.assume(tp[i] <= nr[i])
            ctx.assume(tp[i] <= ne[i])
            ctx.assume(tc[i] >= tp[i])
            ctx.assume(tc[i] <= nr[i])
            ctx.assume(tc[i] <= ne[i])
        return dict(nref=nr, nest=ne, tp=tp, tc=tc)

    def body(A, inp):
        nr, ne = inp['nref'], inp['nest']
        res = {}
        for tag, t in (('raw', inp['tp']), ('chroma', inp['tc'])):
            t = t.astype(float) if not A.sym else t
            p, r, a = MP.compute_accuracy(t, nr, ne)
            es, em, ef, et = MP.compute_err_score(t, nr, ne)
            res[tag] = (p, r, a, es, em, ef, et)
            for nm, v in zip(('p', 'r', 'a', 'es', 'em', 'ef', 'et'), res[tag]):
                A.observe(tag + '.' + nm, v)
            A.require(A.eq(et, es + em + ef), '%s:E_tot==E_sub+E_miss+E_fa' % tag)
            A.require(A.And(A.ge(es, 0), A.ge(em, 0), A.ge(ef, 0), A.ge(et, 0)), '%s:errors>=0' % tag)
            A.require(A.And(A.le(a, p), A.le(a, r)), '%s:acc<=min(P,R)' % tag)
            A.require(A.And(A.in01(p), A.in01(r), A.in01(a)), '%s:P,R,Acc-in-[0,1]' % tag)
            A.require(A.And(A.finite(es), A.finite(em), A.finite(ef), A.finite(et)), '%s:errors-finite' % tag)
        # chroma counts dominate raw counts => chroma P/R/Acc >= raw, E_tot chroma <= raw
        A.require(A.And(A.ge(res['chroma'][0], res['raw'][0]), A.ge(res['chroma'][1], res['raw'][1]), A.ge(res['chroma'][2], res['raw'][2]),
                        A.le(res['chroma'][6], res['raw'][6])), 'chroma-scores-dominate-raw')
    return Job('C18', 'accounting[%d frames]' % F, build, body, funcs=['multipitch.compute_accuracy', 'multipitch.compute_err_score'],
               bounds=dict(frames=F, counts='unbounded non-negative integers'))


def job_tp(nr, ne):
    def build(ctx):
        ref = [C.log_freqs(ctx, 'r', nr)]
        est = [C.log_freqs(ctx, 'e', ne)]
        w = ctx.real('w')
        ctx.assume(w > 0)
        ctx.assume(w <= 6)
        return dict(ref=ref, est=est, w=w)

    def body(A, inp):
        rm = MP.frequencies_to_midi(inp['ref'])
        em = MP.frequencies_to_midi(inp['est'])
        tp = MP.compute_num_true_positives(rm, em, window=inp['w'])
        tc = MP.compute_num_true_positives(MP.midi_to_chroma(rm), MP.midi_to_chroma(em), window=inp['w'], chroma=True)
        A.observe('tp', tp)
        A.observe('tc', tc)
        A.require(A.And(A.ge(tp[0], 0), A.le(tp[0], min(nr, ne))), 'tp<=min(nref,nest)')
        A.require(A.And(A.ge(tc[0], tp[0]), A.le(tc[0], min(nr, ne))), 'tp<=tc<=min(nref,nest)')
    return Job('C18', 'true_positives[%dx%d]' % (nr, ne), build, body, exact_floats=False,
               funcs=['multipitch.compute_num_true_positives', 'multipitch.frequencies_to_midi', 'multipitch.midi_to_chroma',
                      'util.match_events'], bounds=dict(ref=nr, est=ne))


def job_resample(nt, ntarget):
    def build(ctx):
        times = C.events(ctx, 't', nt, strict=True)
        target = C.events(ctx, 'u', ntarget)
        return dict(times=times, target=target)

    def body(A, inp):
        times, target = inp['times'], inp['target']
        freqs = [np.array([100.0 + i]) for i in range(nt)]
        out = MP.resample_multipitch(times, list(freqs), target)
        A.require(len(out) == ntarget, 'resample:length')
        A.observe('which', [(-1 if len(o) == 0 else int(o[0]) - 100) for o in out])
        ok = True
        for k in range(ntarget):
            u = target[k]
            outside = A.Or(A.xlt(u, times[0]), A.xgt(u, times[nt - 1]))
            if len(out[k]) == 0:
                c = outside
            else:
                i = int(out[k][0]) - 100
                c = A.Not(outside)
                for j in range(nt):
                    c = A.And(c, A.xle(abs(u - times[i]), abs(u - times[j])))
            ok = A.And(ok, c)
        A.require(ok, 'resample:nearest-frame-or-empty-outside')
    return Job('C18', 'resample_multipitch[%d->%d]' % (nt, ntarget), build, body, funcs=['multipitch.resample_multipitch'],
               bounds=dict(times=nt, targets=ntarget))


def job_resample_empty():
    def build(ctx):
        return dict(t=C.events(ctx, 't', 2))

    def body(A, inp):
        e = np.array([])
        out1 = MP.resample_multipitch(inp['t'], [np.array([100.0]), np.array([200.0])], e if not A.sym else S._wrap(np.zeros((0,), dtype=object)))
        out2 = MP.resample_multipitch(e if not A.sym else S._wrap(np.zeros((0,), dtype=object)), [], inp['t'])
        A.require(out1 == [], 'resample:empty-targets')
        A.require(len(out2) == 2 and all(len(o) == 0 for o in out2), 'resample:empty-source-gives-empty-frames')
    return Job('C18', 'resample_multipitch[empty]', build, body, funcs=['multipitch.resample_multipitch'])


def job_metrics(nr, ne, same_base):
    def build(ctx):
        rt = C.events(ctx, 'rt', nr, strict=True)
        et = rt if same_base else C.events(ctx, 'et', ne, strict=True)
        rf = [C.log_freqs(ctx, 'rf%d_' % i, 1) for i in range(nr)]
        ef = [C.log_freqs(ctx, 'ef%d_' % i, 1 if i else 2) for i in range(nr if same_base else ne)]
        w = ctx.real('w')
        ctx.assume(w > 0)
        ctx.assume(w <= 6)
        return dict(rt=rt, rf=rf, et=et, ef=ef, w=w)

    def body(A, inp):
        res = MP.metrics(inp['rt'], inp['rf'], inp['et'], inp['ef'], window=inp['w'])
        A.require(len(res) == 14, 'metrics:arity')
        names = ['P', 'R', 'Acc', 'Esub', 'Emiss', 'Efa', 'Etot', 'Pc', 'Rc', 'Accc', 'Esubc', 'Emissc', 'Efac', 'Etotc']
        for nm, v in zip(names, res):
            A.observe(nm, v)
        for off, tag in ((0, 'raw'), (7, 'chroma')):
            p, r, a, es, em, ef, et = res[off:off + 7]
            A.require(A.eq(et, es + em + ef), 'metrics.%s:E_tot==sum' % tag)
            A.require(A.And(A.ge(es, 0), A.ge(em, 0), A.ge(ef, 0)), 'metrics.%s:errors>=0' % tag)
            A.require(A.And(A.le(a, p), A.le(a, r), A.in01(p), A.in01(r), A.in01(a)), 'metrics.%s:acc<=min(P,R)' % tag)
        A.require(A.And(A.ge(res[7], res[0]), A.ge(res[8], res[1]), A.ge(res[9], res[2])), 'metrics:chroma>=raw')
    return Job('C18', 'metrics[%d ref frames,%s]' % (nr, 'same time base' if same_base else '%d est frames' % ne), build, body,
               exact_floats=False, funcs=['multipitch.metrics', 'multipitch.resample_multipitch', 'multipitch.validate'],
               bounds=dict(ref_frames=nr, est_frames=ne), timeout_s=1200)


def job_metrics_resampled(nr, ne):
    """metrics() on an estimate with its own time base equals metrics() on the estimate re-expressed on the reference's time
    base by resample_multipitch (whose nearest-frame / empty-outside contract is the job above), whenever the two time bases
    clearly differ: different lengths, or some time stamp off by more than 1e-3 (1 + |t|) - far outside any closeness tolerance"""
    def build(ctx):
        rt = C.events(ctx, 'rt', nr, strict=True)
        et = C.events(ctx, 'et', ne, strict=True)
        # concrete pitches (frame i holds 220 (i+1) Hz in both annotations): the scores then depend on the frame mapping only
        rf = [np.array([220.0 * (i + 1)]) for i in range(nr)]
        ef = [np.array([220.0 * (i + 1)]) for i in range(ne)]
        return dict(rt=rt, rf=rf, et=et, ef=ef)

    def body(A, inp):
        rt, et = inp['rt'], inp['et']
        res = MP.metrics(rt, inp['rf'], et, inp['ef'])
        est2 = MP.resample_multipitch(et, list(inp['ef']), rt)
        res2 = MP.metrics(rt, inp['rf'], rt.copy(), est2)
        differ = nr != ne
        if nr == ne:
            for i in range(nr):
                d = abs(et[i] - rt[i])
                differ = A.Or(differ, A.xgt(d, 1e-3 * (1 + rt[i])))
        same = True
        for i in range(14):
            A.observe('m%d' % i, res[i])
            same = A.And(same, A.eq(res[i], res2[i]))
        A.require(A.Implies(differ, same), 'metrics:differing-time-base=>scores-of-the-resampled-estimate')
    return Job('C18', 'metrics-vs-resampled[%d ref frames,%d est frames]' % (nr, ne), build, body, exact_floats=False,
               funcs=['multipitch.metrics', 'multipitch.resample_multipitch'], bounds=dict(ref_frames=nr, est_frames=ne), timeout_s=1200)


def jobs(tier):
    q = tier == 'quick'
    js = [job_accounting(F) for F in ((1, 2, 3) if q else (1, 2, 3, 4, 5))]
    js += [job_tp(a, b) for a, b in ([(2, 2), (1, 2)] if q else [(2, 2), (1, 2), (1, 3), (3, 1), (2, 3)])]
    js += [job_resample(a, b) for a, b in ([(2, 2), (3, 2), (1, 2)] if q else [(2, 2), (3, 3), (1, 2), (4, 2)])]
    js.append(job_resample_empty())
    js.append(job_metrics(2, 2, True))
    js.append(job_metrics(2, 2, False))
    js.append(job_metrics_resampled(1, 1))
    js.append(job_metrics_resampled(2, 2))
    if not q:
        js.append(job_metrics(2, 3, False))
        js.append(job_metrics_resampled(2, 1))
        js.append(job_metrics_resampled(3, 3))
    return js
