"""C19 - BSS-eval orchestration (partial scope: the numerical core is stubbed, see DESIGN 6)."""
import itertools
import math

import numpy as np
import z3

import mir_eval.separation as SEP

from symx import core as S
from symx.harness import Job
from . import common as C
from .evals import stubbed

META = dict(
    explanation="Decided with the numerical core stubbed: (a) _bss_decomp_mtifilt with _project returning arbitrary (fresh symbolic) vectors: the four "
                "components sum to the zero-padded estimate for all inputs and all projections; (b) bss_eval_sources / bss_eval_images with arbitrary "
                "symbolic criteria matrices: the returned perm is a permutation, maximises mean SIR over all permutations, is the identity when "
                "compute_permutation=False, the outputs are the selected matrix entries and no output depends on uninitialised np.empty cells; "
                "(c) *_framewise: window count, the exact slices handed to the non-framewise function, its results copied per window, NaN in every "
                "metric for windows with a silent source, documented arity for empty input; (d) the real _safe_db on symbolic energies and the real "
                "_bss_source_crit on symbolic component vectors (not stubbed): a ratio is +inf exactly when its error component is "
                "identically zero, also after a common positive factor (what scaling an estimate does to every energy).",
    bounds="nsrc <= 3 (perm), flen = 2, nsampl <= 3 (decomposition); framewise: nsrc 2, 6-8 samples, window 4, hop 2, all placements of a silent window; criteria: _bss_source_crit with component vectors of length 1 (_bss_image_crit not registered: too slow)",
    stubs=["_project (arbitrary vectors), _bss_decomp_mtifilt(_images) / _bss_source_crit / _bss_image_crit (arbitrary criteria), bss_eval_sources / "
           "bss_eval_images inside the framewise variants (arbitrary per-window results); np.empty returns fresh unconstrained variables"],
    assumptions=["NOT claimed (not applicable to this technique): scale invariance of SDR/SIR/SAR, 'perfect estimate => identity permutation with very high "
                 "SDR', framewise == non-framewise *values*: they depend on 512-tap FFT/Toeplitz numerics in float64"],
)


def job_decomposition(nsrc, nsampl, flen=2):
    def build(ctx):
        ref = S.array([[ctx.real('s%d_%d' % (i, t)) for t in range(nsampl)] for i in range(nsrc)])
        est = S.array([ctx.real('e%d' % t) for t in range(nsampl)])
        # two arbitrary projection results (the function projects twice)
        proj = [[ctx.real('p%d_%d' % (k, t)) for t in range(nsampl + flen - 1)] for k in range(2)]
        return dict(ref=ref, est=est, proj=proj, j=0)

    def body(A, inp):
        calls = []

        def project(reference_sources, estimated_source, fl):
            k = len(calls)
            calls.append(np.shape(reference_sources))
            v = inp['proj'][k]
            return S.array(v) if A.sym else np.array(v, dtype=float)
        with stubbed([(SEP, '_project', project)]):
            for j in range(nsrc):
                del calls[:]
                s_true, e_spat, e_interf, e_artif = SEP._bss_decomp_mtifilt(inp['ref'], inp['est'], j, flen)
                tot = s_true + e_spat + e_interf + e_artif
                ok = len(tot) == nsampl + flen - 1 and len(calls) == 2
                for t in range(nsampl + flen - 1):
                    want = inp['est'][t] if t < nsampl else 0.0
                    ok = A.And(ok, A.eq(tot[t], want))
                A.require(ok, '_bss_decomp_mtifilt[j=%d]:components-sum-to-the-padded-estimate' % j)
                st = True
                for t in range(nsampl + flen - 1):
                    st = A.And(st, A.eq(s_true[t], inp['ref'][j, t] if t < nsampl else 0.0))
                A.require(st, '_bss_decomp_mtifilt[j=%d]:s_true-is-the-padded-reference' % j)
    return Job('C19', 'decomposition[nsrc=%d,nsampl=%d,flen=%d]' % (nsrc, nsampl, flen), build, body, funcs=['separation._bss_decomp_mtifilt'],
               bounds=dict(nsrc=nsrc, nsampl=nsampl, flen=flen), fresh_empty=True)


def job_permutation(nsrc, images, compute_permutation):
    ncrit = 4 if images else 3

    def build(ctx):
        crit = [[[ctx.real('c%d_%d_%d' % (m, i, j)) for j in range(nsrc)] for i in range(nsrc)] for m in range(ncrit)]
        return dict(crit=crit)

    def body(A, inp):
        crit = inp['crit']
        ref = np.ones((nsrc, 4))
        est = np.array([[float(j + 1)] * 4 for j in range(nsrc)])     # row j tagged by its value j+1
        if A.sym:
            ref, est = S._wrap(ref), S._wrap(est)

        cache_args = []

        def decomp(reference_sources, estimated_source, j, flen, *a):
            jest = int(round(float(np.asarray(estimated_source, dtype=float).reshape(-1)[0]))) - 1
            tok = ('tok', jest, j)
            if images and a:
                # the caller may hand back the Gram matrices returned by earlier calls: record what it hands in
                cache_args.append((j, a[0], a[1] if len(a) > 1 else None))
                return tok, None, None, None, ('Gj', j), ('G',)
            return tok, None, None, None

        def is_placeholder(x):
            return not isinstance(x, tuple) and not np.any(np.asarray(x, dtype=float))

        def critf(s_true, e_spat, e_interf, e_artif):
            _, jest, jtrue = s_true
            return tuple(crit[m][jest][jtrue] for m in range(ncrit))
        if images:
            stubs = [(SEP, '_bss_decomp_mtifilt_images', decomp), (SEP, '_bss_image_crit', critf), (SEP, '_any_source_silent', lambda x: False)]
            fn = SEP.bss_eval_images
            est_in = est.reshape(nsrc, 4, 1)
            ref_in = ref.reshape(nsrc, 4, 1)
        else:
            stubs = [(SEP, '_bss_decomp_mtifilt', decomp), (SEP, '_bss_source_crit', critf), (SEP, '_any_source_silent', lambda x: False)]
            fn = SEP.bss_eval_sources
            est_in, ref_in = est, ref
        fn = getattr(fn, '__wrapped__', fn)
        with stubbed(stubs):
            out = fn(ref_in, est_in, compute_permutation)
        A.require(len(out) == ncrit + 1, 'arity')
        # cached Gram matrices: the single-source matrix handed in for reference j is a fresh placeholder or the one returned for the
        # same j; the all-sources matrix is a placeholder or the one returned before
        ok_cache = all((is_placeholder(gj) or gj == ('Gj', j)) and (is_placeholder(g) or g == ('G',)) for j, gj, g in cache_args)
        A.require(ok_cache, 'cached-Gram-matrices-belong-to-the-same-reference', got=[(j, repr(gj)[:20], repr(g)[:20]) for j, gj, g in cache_args])
        perm = [int(x) for x in out[-1]]
        A.observe('perm', perm)
        A.require(sorted(perm) == list(range(nsrc)), 'perm-is-a-permutation')
        sir = crit[2 if images else 1]
        if compute_permutation:
            best = True
            mine = 0
            for j in range(nsrc):
                mine = mine + sir[perm[j]][j]
            for q in itertools.permutations(range(nsrc)):
                other = 0
                for j in range(nsrc):
                    other = other + sir[q[j]][j]
                best = A.And(best, A.xge(mine, other))
            A.require(best, 'perm-maximises-mean-SIR')
        else:
            A.require(perm == list(range(nsrc)), 'perm-is-identity-without-compute_permutation')
        sel = True
        for m in range(ncrit):
            for j in range(nsrc):
                sel = A.And(sel, A.eq(out[m][j], crit[m][perm[j]][j]))
        A.require(sel, 'outputs-are-the-selected-criteria (no dependence on uninitialised cells)')
    return Job('C19', '%s[nsrc=%d,compute_permutation=%s]' % ('bss_eval_images' if images else 'bss_eval_sources', nsrc, compute_permutation), build, body,
               funcs=['separation.bss_eval_images' if images else 'separation.bss_eval_sources', 'separation.validate'], fresh_empty=True,
               bounds=dict(nsrc=nsrc), timeout_s=1500)


def job_framewise(images, nsampl, silent_at, window=4, hop=2, nsrc=2, cp=False):
    ncrit = 4 if images else 3

    def build(ctx):
        nwin = int(math.floor((nsampl - window + hop) / hop))
        vals = [[[ctx.real('r%d_%d_%d' % (m, j, k)) for k in range(max(nwin, 1))] for j in range(nsrc)] for m in range(ncrit)]
        return dict(vals=vals)

    def body(A, inp):
        vals = inp['vals']
        nwin = int(math.floor((nsampl - window + hop) / hop))
        ref = np.arange(1, nsrc * nsampl + 1, dtype=float).reshape(nsrc, nsampl)
        est = ref + 100.0
        if silent_at is not None:
            side, src, k = silent_at
            (ref if side == 'ref' else est)[src, k * hop:k * hop + window] = 0.0
        if images:
            ref, est = ref.reshape(nsrc, nsampl, 1), est.reshape(nsrc, nsampl, 1)
        calls = []

        def inner(r, e, compute_permutation=True):
            r0 = np.asarray(S.demote(r) if isinstance(r, S.SymArray) else r, dtype=float)
            e0 = np.asarray(S.demote(e) if isinstance(e, S.SymArray) else e, dtype=float)
            k = len(calls)
            calls.append((r0.copy(), e0.copy(), compute_permutation))
            res = [np.array([vals[m][j][k] for j in range(nsrc)], dtype=object) if A.sym else np.array([vals[m][j][k] for j in range(nsrc)]) for m in range(ncrit)]
            if A.sym:
                res = [S.array(list(x)) for x in res]
            return tuple(res) + (np.arange(nsrc),)
        name = 'bss_eval_images' if images else 'bss_eval_sources'
        fw = getattr(SEP, name + '_framewise')
        fw = getattr(fw, '__wrapped__', fw)
        rin, ein = (S._wrap(ref.copy()), S._wrap(est.copy())) if A.sym else (ref.copy(), est.copy())
        with stubbed([(SEP, name, inner)]):
            out = fw(rin, ein, window=window, hop=hop, compute_permutation=cp)
        A.require(len(out) == ncrit + 1, '%s_framewise:arity' % name, got=len(out))
        A.observe('nwin', nwin)
        # every evaluation (the single-window fall-back included) is made with the caller's compute_permutation
        A.require(all(c[2] is cp or c[2] == cp for c in calls), '%s_framewise:compute_permutation-forwarded' % name, got=[c[2] for c in calls])
        if nwin < 2:
            A.require(len(calls) == 1 and calls[0][0].shape[1] == nsampl, '%s_framewise:short-signal-evaluated-as-one-window' % name)
            return
        silent = set()
        for k in range(nwin):
            rs = ref[:, k * hop:k * hop + window]
            es = est[:, k * hop:k * hop + window]
            if any(np.all(rs[j] == 0) for j in range(nsrc)) or any(np.all(es[j] == 0) for j in range(nsrc)):
                silent.add(k)
        live = [k for k in range(nwin) if k not in silent]
        A.require(len(calls) == len(live), '%s_framewise:one-call-per-non-silent-window' % name, got=len(calls))
        ok = True
        for c, k in zip(calls, live):
            ok = ok and np.array_equal(c[0], ref[:, k * hop:k * hop + window]) and np.array_equal(c[1], est[:, k * hop:k * hop + window])
        A.require(ok, '%s_framewise:window-slices' % name)
        shape_ok = all(tuple(np.shape(o)) == (nsrc, nwin) for o in out)
        A.require(shape_ok, '%s_framewise:result-shape' % name)
        if not shape_ok:
            return
        vals_ok = True
        nan_ok = True
        for m in range(ncrit + 1):
            for j in range(nsrc):
                for k in range(nwin):
                    v = out[m][j, k]
                    if k in silent:
                        isnan = (not S.is_sym(v)) and isinstance(v, (float, np.floating)) and math.isnan(v)
                        nan_ok = nan_ok and isnan
                    elif m < ncrit:
                        vals_ok = A.And(vals_ok, A.eq(v, vals[m][j][live.index(k)]))
        A.require(vals_ok, '%s_framewise:per-window-results-copied' % name)
        A.require(nan_ok, '%s_framewise:NaN-in-every-metric-for-silent-windows' % name)
    return Job('C19', '%s_framewise[nsampl=%d,silent=%s,compute_permutation=%s]' % ('bss_eval_images' if images else 'bss_eval_sources', nsampl, silent_at, cp), build, body,
               funcs=['separation.bss_eval_%s_framewise' % ('images' if images else 'sources'), 'separation._any_source_silent', 'separation.validate'],
               fresh_empty=True, bounds=dict(nsampl=nsampl, window=window, hop=hop))


def job_empty(images, framewise):
    name = 'bss_eval_images' if images else 'bss_eval_sources'
    if framewise:
        name += '_framewise'

    def build(ctx):
        return dict(x=0)

    def body(A, inp):
        fn = getattr(SEP, name)
        fn = getattr(fn, '__wrapped__', fn)
        e = np.zeros((0, 0, 1)) if images else np.zeros((0, 0))
        out = fn(S._wrap(e) if A.sym and e.ndim else e, S._wrap(e.copy()) if A.sym and e.ndim else e.copy())
        A.observe('n', len(out))
        A.require(len(out) == (5 if images else 4), '%s:documented-arity-for-empty-input' % name, got=len(out))
        A.require(all(np.size(o) == 0 for o in out), '%s:empty-results-for-empty-input' % name)
    return Job('C19', '%s[empty input]' % name, build, body, funcs=['separation.' + name])


def _isinf(r):
    return (not S.is_sym(r)) and bool(np.isposinf(r))     # +inf only: a vanishing numerator gives -inf, which is not at issue here


def job_safe_db():
    """the real _safe_db on a symbolic energy ratio: +inf exactly for a zero denominator, and the same value after both energies are
    multiplied by a symbolic positive constant (what scaling an estimate by c != 0 does to every energy: factor c^2)"""
    def build(ctx):
        num, den, k = ctx.real('num'), ctx.real('den'), ctx.real('k')
        ctx.assume(num > 0)
        ctx.assume(den >= 0)
        ctx.assume(k > 0)
        return dict(num=num, den=den, k=k)

    def body(A, inp):
        num, den, k = inp['num'], inp['den'], inp['k']
        r1 = SEP._safe_db(num, den)
        r2 = SEP._safe_db(num * k, den * k)
        A.observe('db', r1)
        A.observe('db_scaled', r2)
        i1, i2 = _isinf(r1), _isinf(r2)
        A.require(A.Or(A.xeq(den, 0), not i1), '_safe_db:+inf-only-for-a-zero-denominator')
        A.require(A.Or(A.xgt(den, 0), i1), '_safe_db:zero-denominator=>+inf')
        A.require(i1 == i2, '_safe_db:infinite-or-not-regardless-of-a-common-positive-factor')
    return Job('C19', '_safe_db[symbolic energies, common factor]', build, body, funcs=['separation._safe_db'])


def job_crit(images, n=2):
    """the real _bss_source_crit / _bss_image_crit on symbolic component vectors: a ratio is +inf exactly when its error component is
    identically zero (so a small but non-zero error can never be reported as a perfect separation)"""
    name = '_bss_image_crit' if images else '_bss_source_crit'
    comps = ('s_true', 'e_spat', 'e_interf', 'e_artif')

    def build(ctx):
        d = {}
        for c in comps:
            d[c] = [ctx.real('%s%d' % (c, t)) for t in range(n)]
        tot = 0
        for t in range(n):
            tot = tot + d['s_true'][t] * d['s_true'][t]
        ctx.assume(tot > 0)          # non-silent reference (documented precondition)
        return d

    def body(A, inp):
        v = {c: (S.array(inp[c]) if A.sym else np.array(inp[c], dtype=float)) for c in comps}
        out = getattr(SEP, name)(v['s_true'], v['e_spat'], v['e_interf'], v['e_artif'])
        if images:
            errs = [('sdr', [v['e_spat'][t] + v['e_interf'][t] + v['e_artif'][t] for t in range(n)]), ('isr', list(v['e_spat'])),
                    ('sir', list(v['e_interf'])), ('sar', list(v['e_artif']))]
        else:
            errs = [('sdr', [v['e_interf'][t] + v['e_artif'][t] for t in range(n)]), ('sir', list(v['e_interf'])), ('sar', list(v['e_artif']))]
        A.require(len(out) == len(errs), '%s:arity' % name)
        for (nm, e), r in zip(errs, out):
            zero = True
            for t in range(n):
                zero = A.And(zero, A.xeq(e[t], 0))
            inf = _isinf(r)
            A.require(A.Or(A.Not(zero), inf), '%s:%s-is-+inf-when-the-error-component-vanishes' % (name, nm))
            A.require(A.Or(zero, not inf), '%s:%s-is-finite-for-any-non-zero-error-component' % (name, nm))
    return Job('C19', '%s[n=%d symbolic components]' % (name, n), build, body, funcs=['separation.' + name, 'separation._safe_db'])


def jobs(tier):
    q = tier == 'quick'
    js = [job_safe_db(), job_crit(False, 1)]
    # job_crit(True, 1) (_bss_image_crit) is not registered: 130-600 s of non-linear real arithmetic, it hit the job time limit under load
    for (nsrc, ns) in ([(1, 2), (2, 2)] if q else [(1, 2), (2, 2), (2, 3), (3, 3)]):
        js.append(job_decomposition(nsrc, ns))
    for images in (False, True):
        for nsrc in (1, 2, 3):
            js.append(job_permutation(nsrc, images, True))
        js.append(job_permutation(2, images, False))
        js.append(job_permutation(3, images, False))
        for (ns, sil) in [(8, None), (8, ('ref', 0, 1)), (8, ('est', 1, 2)), (6, ('ref', 1, 0)), (4, None)]:
            js.append(job_framewise(images, ns, sil))
        for (ns, sil) in [(8, None), (4, None), (3, None), (5, None)]:
            js.append(job_framewise(images, ns, sil, cp=True))
        js.append(job_framewise(images, 3, None))
        js.append(job_framewise(images, 5, None))      # exactly one window fits and leaves a tail: the whole signal is evaluated
        js.append(job_framewise(images, 7, None))      # two windows and a tail
        js.append(job_empty(images, False))
        js.append(job_empty(images, True))
    return js
