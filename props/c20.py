"""C20 - annotation files load back to exactly what they encode (tokenisation and post-parse contract; see DESIGN 6 for what is not applicable)."""
import io as _io
import re as _re
import re._constants as sc
import re._parser as sp

import numpy as np
import z3

import mir_eval.io as IO

from symx import core as S
from symx import strings as ST
from symx.harness import Job
from . import common as C

META = dict(
    explanation="(a) tokenisation: the real load_delimited reads a line assembled from symbolic pieces lead+f1+d1+f2+d2+label+trail+'\\n' (free ASCII content, "
                "fields free of whitespace, delimiters non-empty runs of whitespace / ',' / tab, label with arbitrary interior) through a symbolic "
                "model of the `re` calls it makes; z3 must show the returned columns are exactly the written fields as strings, that a first field "
                "starting with the comment marker makes the line vanish, that a wrong column count or an unparsable number raises ValueError and "
                "that two lines keep file order; the same for load_ragged_time_series (time stamp + 0-2 values per row).  (a') load_patterns on files whose header structure is concrete and whose note tokens are symbolic: the nesting and values returned equal the file.  (b) post-parse contract: load_events/intervals/labeled_*/valued_intervals/time_series/key/tempo on "
                "arbitrary parsed columns return the values in file order and only warn on convention violations, except tempo weight outside "
                "[0,1] and multi-line key/tempo files (ValueError).",
    bounds="pieces of length <=2 (quick) / <=3 (thorough), label <=3 / 5 characters, code points 9..126; 1-2 lines; parsed columns of 0-2 (3) rows",
    stubs=["re.compile(...).match/.split on symbolic strings: small backtracking-free interpreter for the patterns load_delimited builds (class, class+, "
           "literal, ^literal); validated against CPython's re on every path witness",
           "float() on a symbolic token: injective uninterpreted token FLOAT(s) for tokens in the float-literal language over [0-9.eE+-], ValueError otherwise",
           "(b): io.load_delimited replaced by a stub returning arbitrary symbolic columns"],
    assumptions=["not applicable and not claimed: bit-identical float round trip (CPython's float()/repr), reading from a path vs. an open file, the row "
                 "number quoted in messages, labels outside the symbolic alphabet, load_wav"],
)

WS = ST.WHITESPACE


class RxProxy:
    """model of the subset of `re` used by io.load_delimited (patterns: \\s+, a literal, ^literal)"""

    def __init__(self, pattern):
        self.real = _re.compile(pattern)
        self.tree = list(sp.parse(pattern))

    def _cls(self, node, s, i):
        op, av = node
        ch = s[i].e
        c = S.cur()
        if op is sc.LITERAL:
            return c.decide(ch == z3.StringVal(chr(av)))
        if op is sc.IN:
            alts = []
            for o, a in av:
                if o is sc.LITERAL:
                    alts.append(ch == z3.StringVal(chr(a)))
                elif o is sc.CATEGORY and a is sc.CATEGORY_SPACE:
                    alts.append(z3.Or([ch == z3.StringVal(w) for w in WS]))
                else:
                    raise S.Unsupported("regex class item %r" % ((o, a),))
            return c.decide(z3.Or(alts))
        raise S.Unsupported("regex node %r" % (node,))

    def _match_at(self, s, i):
        pos = i
        for op, av in self.tree:
            if op is sc.AT and av is sc.AT_BEGINNING:
                if pos != 0:
                    return None
                continue
            if op is sc.MAX_REPEAT:
                lo, hi, sub = av
                sub = list(sub)
                if len(sub) != 1:
                    raise S.Unsupported("regex repeat of a sequence")
                k = 0
                while pos < len(s) and (hi is sc.MAXREPEAT or k < hi) and self._cls(sub[0], s, pos):
                    pos += 1
                    k += 1
                if k < lo:
                    return None
                continue
            if pos >= len(s) or not self._cls((op, av), s, pos):
                return None
            pos += 1
        return pos

    def match(self, s):
        s = ST.sym(s)
        if not isinstance(s, ST.SymStr):
            return self.real.match(s)
        return self._match_at(s, 0) is not None

    def search(self, s):
        s = ST.sym(s)
        if not isinstance(s, ST.SymStr):
            return self.real.search(s)
        for i in range(len(s) + 1):
            if self._match_at(s, i) is not None:
                return True
        return None

    def fullmatch(self, s):
        s = ST.sym(s)
        if not isinstance(s, ST.SymStr):
            return self.real.fullmatch(s)
        return self._match_at(s, 0) == len(s) or None

    def split(self, s, maxsplit=0):
        s = ST.sym(s)
        if not isinstance(s, ST.SymStr):
            return self.real.split(s, maxsplit)
        out, pos, i, n = [], 0, 0, 0
        while i < len(s) and (maxsplit == 0 or n < maxsplit):
            e = self._match_at(s, i)
            if e is None or e == i:
                i += 1
                continue
            out.append(s[pos:i])
            pos = i = e
            n += 1
        out.append(s[pos:len(s)])
        return out


class ReMod:
    @staticmethod
    def compile(p, *a):
        return RxProxy(p)


class FloatTok:
    """FLOAT(token): the (uninterpreted, injective) number denoted by a symbolic token"""

    def __init__(self, s):
        self.s = s

    def __concretize__(self, model):
        return float(self.s.__concretize__(model))


_FLOAT_RX = None


def float_rx():
    global _FLOAT_RX
    if _FLOAT_RX is None:
        d = z3.Range("0", "9")
        digits = z3.Plus(d)
        mant = z3.Union(z3.Concat(digits, z3.Option(z3.Concat(z3.Re("."), z3.Star(d)))), z3.Concat(z3.Re("."), digits))
        sign = z3.Option(z3.Union(z3.Re("+"), z3.Re("-")))
        expo = z3.Option(z3.Concat(z3.Union(z3.Re("e"), z3.Re("E")), sign, digits))
        _FLOAT_RX = z3.Concat(sign, mant, expo)
    return _FLOAT_RX


def tok_float(x=0.0):
    x = ST.sym(x)
    if isinstance(x, ST.SymStr):
        x = x.strip()          # float() ignores surrounding whitespace
        if S.cur().decide(z3.InRe(x.e, float_rx())):
            return FloatTok(x)
        raise ValueError("could not convert string to float")
    return float(x)


tok_float.__name__ = 'float'

PATCH = {'io': {'re': ReMod, 'float': tok_float, 'str': ST.sym_str}}
NUMCHARS = "0123456789.eE+-x"


def piece(ctx, name, n, kind, delim=None):
    v = z3.String(name)
    ctx.inputs[name] = v
    ctx.add(z3.Length(v) == n)
    for i in range(n):
        ch = z3.SubString(v, i, 1)
        c = z3.StrToCode(ch)
        ctx.add(c >= 9, c <= 126)
        isws = z3.Or([ch == z3.StringVal(w) for w in WS])
        if kind == 'ws':
            ctx.add(isws, ch != z3.StringVal("\n"))
        elif kind == 'num':
            ctx.add(z3.Or([ch == z3.StringVal(w) for w in NUMCHARS]))
        elif kind == 'field':
            ctx.add(z3.Not(isws))
            if delim:
                ctx.add(ch != z3.StringVal(delim))
        elif kind == 'label':
            ctx.add(ch != z3.StringVal("\n"), ch != z3.StringVal("\r"), ch != z3.StringVal("\x0b"), ch != z3.StringVal("\x0c"),
                    ch != z3.StringVal("\x1c"), ch != z3.StringVal("\x1d"), ch != z3.StringVal("\x1e"), ch != z3.StringVal("\x85"))
            if i in (0, n - 1):
                ctx.add(z3.Not(isws))
    return ST.SymStr(v, n)


class Lines:
    """minimal file-like object yielding (symbolic) lines"""

    def __init__(self, lines):
        self.lines = lines

    def read(self):
        raise NotImplementedError

    def readlines(self):
        return list(self.lines)

    def __iter__(self):
        return iter(self.lines)


def as_file(A, lines):
    if A.sym:
        return Lines(lines)
    return _io.StringIO(''.join(lines))


def _same_str(A, got, want):
    if A.sym:
        ge, gn = ST.lift(got)
        we, wn = ST.lift(want)
        if gn != wn:
            return False
        return S.SymBool(ge == we)
    return got == want


def job_tokens(shape, delimiter, numeric):
    """shape = lengths of (lead, f1, d1, f2, d2, label, trail)"""
    custom = delimiter is not None

    def build(ctx):
        ln = dict(zip('lead f1 d1 f2 d2 lab trail'.split(), shape))
        fk = 'num' if numeric else 'field'
        d = {}
        d['lead'] = piece(ctx, 'lead', ln['lead'], 'ws')
        d['f1'] = piece(ctx, 'f1', ln['f1'], fk, delimiter)
        d['f2'] = piece(ctx, 'f2', ln['f2'], fk, delimiter)
        d['lab'] = piece(ctx, 'lab', ln['lab'], 'label')
        d['trail'] = piece(ctx, 'trail', ln['trail'], 'ws')
        if custom:
            d['d1'] = d['d2'] = delimiter
        else:
            d['d1'] = piece(ctx, 'd1', ln['d1'], 'ws')
            d['d2'] = piece(ctx, 'd2', ln['d2'], 'ws')
        return d

    def body(A, inp):
        line = inp['lead'] + inp['f1'] + inp['d1'] + inp['f2'] + inp['d2'] + inp['lab'] + inp['trail'] + "\n"
        f1, f2, lab = inp['f1'], inp['f2'], inp['lab']
        kw = dict(delimiter=delimiter) if custom else {}
        if numeric:
            conv = [tok_float, tok_float, ST.sym_str] if A.sym else [float, float, str]
        else:
            conv = [ST.sym_str] * 3 if A.sym else [str, str, str]
        st, res = A.call(IO.load_delimited, as_file(A, [line]), conv, **kw)
        A.observe('status', st if st == 'ok' else type(res).__name__)
        A.require(st == 'ok' or isinstance(res, ValueError), 'load_delimited:only-ValueError', got=type(res).__name__)
        # is the line a comment?  (only when nothing precedes the first field; the marker is matched at the start of the raw line)
        first = (inp['lead'] + f1) if len(inp['lead']) + len(f1) else None
        is_comment = False
        if first is not None:
            c0 = first[0]
            is_comment = bool(c0 == '#') if not A.sym else bool(c0 == '#')
        if is_comment:
            A.require(st == 'ok' and all(len(col) == 0 for col in res), 'load_delimited:comment-line-vanishes')
            return
        if numeric:
            def valid(tok):
                if A.sym:
                    return bool(S.SymBool(z3.InRe(tok.e, float_rx())))
                try:
                    float(tok)
                    return True
                except ValueError:
                    return False
            ok1, ok2 = valid(f1), valid(f2)
            if not (ok1 and ok2):
                A.require(st == 'exc', 'load_delimited:unparsable-number=>ValueError')
                return
        A.require(st == 'ok', 'load_delimited:well-formed-line-is-read')
        if st != 'ok':
            return
        c1, c2, c3 = res
        A.require(len(c1) == len(c2) == len(c3) == 1, 'load_delimited:one-row')
        if numeric:
            g1 = c1[0].s if isinstance(c1[0], FloatTok) else c1[0]
            g2 = c2[0].s if isinstance(c2[0], FloatTok) else c2[0]
            if A.sym:
                A.require(A.And(_same_str(A, g1, f1), _same_str(A, g2, f2)), 'load_delimited:numeric-fields-are-the-written-tokens')
            else:
                A.require(g1 == float(f1) and g2 == float(f2), 'load_delimited:numeric-fields-are-the-written-tokens')
        else:
            A.require(A.And(_same_str(A, c1[0], f1), _same_str(A, c2[0], f2)), 'load_delimited:fields-are-the-written-strings')
        A.require(_same_str(A, c3[0], lab), 'load_delimited:label-with-interior-whitespace-preserved')
    nm = 'tokenise[%s,delimiter=%r,%s]' % (','.join(map(str, shape)), delimiter if custom else '\\s+', 'float,float,str' if numeric else 'str,str,str')
    return Job('C20', nm, build, body, extra_patches=PATCH, funcs=['io.load_delimited', 'io._open'], lattice=0, bounds=dict(pieces=shape),
               exc_policy='body', timeout_s=2400, max_decisions=100000)


def job_column_count(k):
    """a line with k whitespace-separated fields read with 2 converters"""
    def build(ctx):
        fs = [piece(ctx, 'f%d' % i, 1, 'field') for i in range(k)]
        ds = [piece(ctx, 'd%d' % i, 1, 'ws') for i in range(k - 1)]
        ctx.add(z3.SubString(fs[0].e, 0, 1) != z3.StringVal("#"))
        return dict(fs=fs, ds=ds)

    def body(A, inp):
        line = inp['fs'][0]
        for d, f in zip(inp['ds'], inp['fs'][1:]):
            line = line + d + f
        line = line + "\n"
        conv = [ST.sym_str] * 2 if A.sym else [str, str]
        st, res = A.call(IO.load_delimited, as_file(A, [line]), conv)
        if k == 1:
            A.require(st == 'exc' and isinstance(res, ValueError), 'load_delimited:too-few-columns=>ValueError')
        else:
            # the last converter's column absorbs the rest of the line (label with interior whitespace)
            A.require(st == 'ok', 'load_delimited:at-least-n-columns-is-read')
    return Job('C20', 'column-count[%d fields, 2 converters]' % k, build, body, extra_patches=PATCH, funcs=['io.load_delimited'], lattice=0,
               exc_policy='body')


def job_two_lines():
    def build(ctx):
        a = piece(ctx, 'a', 2, 'field')
        b = piece(ctx, 'b', 2, 'field')
        ctx.add(z3.SubString(a.e, 0, 1) != z3.StringVal("#"), z3.SubString(b.e, 0, 1) != z3.StringVal("#"))
        return dict(a=a, b=b)

    def body(A, inp):
        conv = [ST.sym_str] if A.sym else [str]
        st, res = A.call(IO.load_delimited, as_file(A, [inp['a'] + "\n", inp['b'] + "\n"]), conv)
        A.require(st == 'ok' and len(res) == 2, 'load_delimited:two-rows')
        if st == 'ok' and len(res) == 2:
            A.require(A.And(_same_str(A, res[0], inp['a']), _same_str(A, res[1], inp['b'])), 'load_delimited:file-order-kept')
    return Job('C20', 'two-lines[file order]', build, body, extra_patches=PATCH, funcs=['io.load_delimited'], lattice=0, exc_policy='body')


class NpIO:
    """stands in for `np` inside mir_eval.io while symbolic tokens are read: np.array(list of tokens, dtype=float) converts
    every token with the float() model (ValueError for a token outside the float-literal language)"""

    def __getattr__(self, n):
        return getattr(np, n)

    @staticmethod
    def array(x, dtype=None, **k):
        if isinstance(x, (list, tuple)) and any(isinstance(v, (ST.SymStr, FloatTok)) or ST.has_marker(v) for v in x):
            out = np.empty(len(x), dtype=object)
            for i, v in enumerate(x):
                out[i] = v if isinstance(v, FloatTok) or dtype is None else (tok_float(v) if dtype is float else v)
            return out
        return np.array(x, dtype=dtype, **k)


PATCH_RAGGED = {'io': dict(PATCH['io'], np=NpIO())}


def job_ragged(shape, delimiter=None, nvals=2):
    """load_ragged_time_series on one line  lead+t(+d1+v1(+d2+v2))+trail+'\\n'  assembled from symbolic pieces"""
    custom = delimiter is not None

    def build(ctx):
        ln = dict(zip('lead t d1 v1 d2 v2 trail'.split(), shape))
        d = {}
        d['lead'] = piece(ctx, 'lead', ln['lead'], 'ws')
        d['t'] = piece(ctx, 't', ln['t'], 'num', delimiter)
        d['trail'] = piece(ctx, 'trail', ln['trail'], 'ws')
        d['vals'] = []
        d['delims'] = []
        for k in range(nvals):
            d['vals'].append(piece(ctx, 'v%d' % (k + 1), ln['v%d' % (k + 1)], 'num', delimiter))
            d['delims'].append(delimiter if custom else piece(ctx, 'd%d' % (k + 1), ln['d%d' % (k + 1)], 'ws'))
        return d

    def body(A, inp):
        line = inp['lead'] + inp['t']
        for dl, v in zip(inp['delims'], inp['vals']):
            line = line + dl + v
        line = line + inp['trail'] + "\n"
        kw = dict(delimiter=delimiter) if custom else {}
        st, res = A.call(IO.load_ragged_time_series, as_file(A, [line]), **kw)
        A.observe('status', st if st == 'ok' else type(res).__name__)
        A.require(st == 'ok' or isinstance(res, ValueError), 'load_ragged_time_series:only-ValueError', got=type(res).__name__)
        first = inp['lead'] + inp['t']
        if len(first) and bool(first[0] == '#'):
            A.require(st == 'ok' and len(res[0]) == 0 and len(res[1]) == 0, 'load_ragged_time_series:comment-line-vanishes')
            return

        def valid(tok):
            if A.sym:
                return bool(S.SymBool(z3.InRe(tok.e, float_rx())))
            try:
                float(tok)
                return True
            except ValueError:
                return False
        oks = [valid(inp['t'])] + [valid(v) for v in inp['vals']]
        if not all(oks):
            A.require(st == 'exc', 'load_ragged_time_series:unparsable-number=>ValueError')
            return
        A.require(st == 'ok', 'load_ragged_time_series:well-formed-line-is-read')
        if st != 'ok':
            return
        times, values = res
        A.require(len(times) == 1 and len(values) == 1 and len(values[0]) == nvals, 'load_ragged_time_series:one-row-with-all-its-values',
                  got=(len(times), [len(v) for v in values]))
        if not (len(times) == 1 and len(values) == 1 and len(values[0]) == nvals):
            return
        if A.sym:
            same = _same_str(A, times[0].s, inp['t'])
            for g, w in zip(values[0], inp['vals']):
                same = A.And(same, _same_str(A, g.s, w))
        else:
            same = times[0] == float(inp['t']) and all(g == float(w) for g, w in zip(values[0], inp['vals']))
        A.require(same, 'load_ragged_time_series:time-and-values-are-the-written-tokens-in-order')
    nm = 'ragged[%s,delimiter=%r,%d values]' % (','.join(map(str, shape)), delimiter if custom else '\\s+', nvals)
    return Job('C20', nm, build, body, extra_patches=PATCH_RAGGED, funcs=['io.load_ragged_time_series', 'io._open'], lattice=0, bounds=dict(pieces=shape),
               exc_policy='body', timeout_s=2400, max_decisions=100000)


def job_ragged_options(comment, prefix, header):
    """load_ragged_time_series with its comment / header options: a line  <prefix><t> <v>  where prefix is a concrete marker"""
    def build(ctx):
        return dict(t=piece(ctx, 't', 1, 'num'), v=piece(ctx, 'v', 2, 'num'))

    def body(A, inp):
        line = prefix + inp['t'] + " " + inp['v'] + "\n"
        st, res = A.call(IO.load_ragged_time_series, as_file(A, [line]), comment=comment, header=header)
        A.observe('status', st if st == 'ok' else type(res).__name__)
        A.require(st == 'ok' or isinstance(res, ValueError), 'load_ragged_time_series[options]:only-ValueError', got=type(res).__name__)
        is_comment = comment is not None and prefix.startswith(comment)
        if is_comment:
            A.require(st == 'ok' and len(res[0]) == 0 and len(res[1]) == 0, 'load_ragged_time_series[options]:line-starting-with-the-given-marker-vanishes')
            return

        def valid(tok):
            if A.sym:
                return bool(S.SymBool(z3.InRe(ST.lift(tok)[0], float_rx())))
            try:
                float(tok)
                return True
            except ValueError:
                return False
        if not (valid(prefix + inp['t']) and valid(inp['v'])):
            A.require(st == 'exc', 'load_ragged_time_series[options]:unparsable-number=>ValueError')
            return
        A.require(st == 'ok' and len(res[0]) == 1 and len(res[1]) == 1 and len(res[1][0]) == 1, 'load_ragged_time_series[options]:row-is-read')
    return Job('C20', 'ragged-options[comment=%r,line starts with %r,header=%s]' % (comment, prefix, header), build, body, extra_patches=PATCH_RAGGED,
               funcs=['io.load_ragged_time_series'], lattice=0, exc_policy='body', timeout_s=900)


# ---------------------------------------------------------------- (b) post-parse contract

def job_postparse(loader, ncols, rows):
    def build(ctx):
        cols = []
        for c in range(ncols):
            cols.append([ctx.real('v%d_%d' % (c, r)) for r in range(rows)])
        return dict(cols=cols)

    def body(A, inp):
        cols = inp['cols']
        labels = ['L%d' % r for r in range(rows)]

        seen = {}

        def stub(filename, converters, delimiter=r"\s+", comment="#"):
            seen['delimiter'], seen['comment'] = delimiter, comment
            out = []
            for i, cv in enumerate(converters):
                if getattr(cv, '__name__', '') == 'str' or cv is str or cv is ST.sym_str:
                    out.append(list(labels))
                else:
                    out.append(list(cols[i]))
            return out[0] if len(out) == 1 else tuple(out)
        from .evals import stubbed
        with stubbed([(IO, 'load_delimited', stub)]):
            st, res = A.call(getattr(IO, loader), 'dummy')
            # the format options a caller passes reach the reader unchanged
            for dl, cm in ((',', '%'), ('\t', None)):
                st2, _ = A.call(getattr(IO, loader), 'dummy', delimiter=dl, comment=cm)
                A.require(st2 == st and seen.get('delimiter') == dl and seen.get('comment') == cm, 'io.%s:delimiter-and-comment-reach-the-reader' % loader,
                          got=dict(seen))
        A.observe('status', st if st == 'ok' else type(res).__name__)
        A.require(st == 'ok', 'io.%s:returns-despite-convention-violations' % loader, got=repr(res)[:100] if st != 'ok' else None)
        if st != 'ok':
            return
        ok = True
        if loader == 'load_events':
            for r in range(rows):
                ok = A.And(ok, A.xeq(res[r], cols[0][r]))
        elif loader == 'load_labeled_events':
            for r in range(rows):
                ok = A.And(ok, A.xeq(res[0][r], cols[0][r]))
            ok = A.And(ok, list(res[1]) == labels)
        elif loader in ('load_intervals', 'load_labeled_intervals', 'load_valued_intervals'):
            iv = res if loader == 'load_intervals' else res[0]
            A.require(tuple(np.shape(iv)) == (rows, 2), 'io.%s:shape' % loader, got=tuple(np.shape(iv)))
            for r in range(rows):
                ok = A.And(ok, A.xeq(iv[r, 0], cols[0][r]), A.xeq(iv[r, 1], cols[1][r]))
            if loader == 'load_labeled_intervals':
                ok = A.And(ok, list(res[1]) == labels)
            if loader == 'load_valued_intervals':
                for r in range(rows):
                    ok = A.And(ok, A.xeq(res[1][r], cols[2][r]))
        elif loader == 'load_time_series':
            for r in range(rows):
                ok = A.And(ok, A.xeq(res[0][r], cols[0][r]), A.xeq(res[1][r], cols[1][r]))
        A.require(ok, 'io.%s:values-in-file-order' % loader)
    return Job('C20', 'post-parse:%s[%d rows]' % (loader, rows), build, body, funcs=['io.' + loader], exc_policy='body')


def job_tempo(rows):
    def build(ctx):
        return dict(t1=[ctx.real('a%d' % r) for r in range(rows)], t2=[ctx.real('b%d' % r) for r in range(rows)], w=[ctx.real('w%d' % r) for r in range(rows)])

    def body(A, inp):
        seen = {}

        def stub(filename, converters, delimiter=r"\s+", comment="#"):
            seen['delimiter'], seen['comment'] = delimiter, comment
            return list(inp['t1']), list(inp['t2']), list(inp['w'])
        from .evals import stubbed
        with stubbed([(IO, 'load_delimited', stub)]):
            st, res = A.call(IO.load_tempo, 'dummy')
            st2, _ = A.call(IO.load_tempo, 'dummy', delimiter=',', comment='%')
            A.require(st2 == st and seen.get('delimiter') == ',' and seen.get('comment') == '%', 'io.load_tempo:delimiter-and-comment-reach-the-reader', got=dict(seen))
        A.observe('status', st if st == 'ok' else type(res).__name__)
        if rows != 1:
            A.require(st == 'exc' and isinstance(res, ValueError), 'io.load_tempo:multi-line-file=>ValueError')
            return
        w = inp['w'][0]
        inrange = A.And(A.xge(w, 0), A.xle(w, 1))
        if st == 'exc':
            A.require(isinstance(res, ValueError) and bool(A.Not(inrange)), 'io.load_tempo:ValueError-only-for-weight-outside-[0,1]')
        else:
            A.require(inrange, 'io.load_tempo:weight-outside-[0,1]-is-rejected')
            A.require(A.And(A.xeq(res[0][0], inp['t1'][0]), A.xeq(res[0][1], inp['t2'][0]), A.xeq(res[1], w)), 'io.load_tempo:values-in-file-order')
    return Job('C20', 'post-parse:load_tempo[%d rows]' % rows, build, body, funcs=['io.load_tempo', 'tempo.validate_tempi'], exc_policy='body')


def job_key(rows):
    def build(ctx):
        return dict(scale=[ST.string_input(ctx, 's%d' % r, 2, lo=33) for r in range(rows)], mode=[ST.string_input(ctx, 'm%d' % r, 3, lo=33) for r in range(rows)])

    def body(A, inp):
        seen = {}

        def stub(filename, converters, delimiter=r"\s+", comment="#"):
            seen['delimiter'], seen['comment'] = delimiter, comment
            return list(inp['scale']), list(inp['mode'])
        from .evals import stubbed
        with stubbed([(IO, 'load_delimited', stub)]):
            st, res = A.call(IO.load_key, 'dummy')
            st2, _ = A.call(IO.load_key, 'dummy', delimiter='\t', comment=None)
            A.require(st2 == st and seen.get('delimiter') == '\t' and seen.get('comment') is None, 'io.load_key:delimiter-and-comment-reach-the-reader', got=dict(seen))
        A.observe('status', st if st == 'ok' else type(res).__name__)
        if rows != 1:
            A.require(st == 'exc' and isinstance(res, ValueError), 'io.load_key:multi-line-file=>ValueError')
            return
        A.require(st == 'ok', 'io.load_key:returns-with-a-warning-for-unknown-keys', got=repr(res)[:100] if st != 'ok' else None)
        if st == 'ok':
            A.require(_same_str(A, res, inp['scale'][0] + ' ' + inp['mode'][0]), 'io.load_key:scale-and-mode-in-file-order')
    j = Job('C20', 'post-parse:load_key[%d rows]' % rows, build, body, funcs=['io.load_key', 'key.validate_key'], lattice=0, exc_policy='body',
            max_decisions=100000, timeout_s=1500)
    import mir_eval.key as KEY
    j.extra_patches = {'key': {'KEY_TO_SEMITONE': ST.SymDict(KEY.KEY_TO_SEMITONE)}, 'io': {'str': ST.sym_str}}
    return j


def job_patterns(structure):
    """load_patterns state machine: `structure` is a list like ['P', 'O', 'N', 'N', 'O', 'N', 'P', 'O', 'N'] (pattern header,
    occurrence header, note line with two symbolic numeric tokens); the nesting returned must equal the nesting written"""
    def build(ctx):
        toks = []
        k = 0
        for kind in structure:
            if kind == 'N':
                toks.append((piece(ctx, 'on%d' % k, 2, 'num'), piece(ctx, 'mi%d' % k, 1, 'num')))
                k += 1
        return dict(toks=toks)

    def body(A, inp):
        lines = []
        it = iter(inp['toks'])
        want = []
        np_, no_ = 0, 0
        for kind in structure:
            if kind == 'P':
                np_ += 1
                lines.append("pattern%d\n" % np_)
                want.append([])
            elif kind == 'O':
                no_ += 1
                lines.append("occurrence%d\n" % no_)
                want[-1].append([])
            else:
                a, b = next(it)
                lines.append(a + ", " + b + "\n")
                want[-1][-1].append((a, b))
        st, res = A.call(IO.load_patterns, as_file(A, lines))
        A.observe('status', st if st == 'ok' else type(res).__name__)

        def valid(tok):
            if A.sym:
                return bool(S.SymBool(z3.InRe(tok.e, float_rx())))
            try:
                float(tok)
                return True
            except ValueError:
                return False
        allvalid = all(valid(a) and valid(b) for a, b in inp['toks'])
        if not allvalid:
            A.require(st == 'exc' and isinstance(res, ValueError), 'load_patterns:unparsable-number=>ValueError')
            return
        A.require(st == 'ok', 'load_patterns:well-formed-file-is-read', got=repr(res)[:100] if st != 'ok' else None)
        if st != 'ok':
            return
        same = len(res) == len(want)
        if same:
            for pg, pw in zip(res, want):
                same = same and len(pg) == len(pw)
                if same:
                    for og, ow in zip(pg, pw):
                        same = same and len(og) == len(ow)
        A.require(same, 'load_patterns:nesting-equals-the-file')
        if same:
            ok = True
            for pg, pw in zip(res, want):
                for og, ow in zip(pg, pw):
                    for (ga, gb), (wa, wb) in zip(og, ow):
                        if A.sym:
                            ok = A.And(ok, _same_str(A, ga.s if isinstance(ga, FloatTok) else ga, wa), _same_str(A, gb.s if isinstance(gb, FloatTok) else gb, wb))
                        else:
                            ok = ok and ga == float(wa) and gb == float(wb)
            A.require(ok, 'load_patterns:values-in-file-order')
    return Job('C20', 'load_patterns[%s]' % ''.join(structure), build, body, extra_patches=PATCH, funcs=['io.load_patterns'], lattice=0, exc_policy='body',
               timeout_s=1500, max_decisions=100000)


def jobs(tier):
    q = tier == 'quick'
    js = []
    for st in (['PON', 'PONONPON', 'PONPON'] if q else ['PON', 'PONONPON', 'PONPON', 'PONNON', 'PONPONN', 'PONPONONPON']):
        js.append(job_patterns(list(st)))
    shapes = [(0, 1, 1, 1, 1, 1, 0), (1, 1, 1, 2, 1, 3, 1), (0, 2, 2, 1, 1, 2, 1)] if q else \
             [(0, 1, 1, 1, 1, 1, 0), (1, 1, 1, 2, 1, 3, 1), (0, 2, 2, 1, 1, 2, 1), (1, 2, 1, 2, 2, 4, 1), (2, 3, 1, 1, 1, 5, 0)]
    for sh in shapes:
        js.append(job_tokens(sh, None, False))
    js.append(job_tokens((0, 2, 1, 2, 1, 2, 0), None, True))
    js.append(job_tokens((0, 1, 1, 1, 1, 3, 1), ',', False))
    js.append(job_tokens((0, 2, 1, 1, 1, 3, 0), '\t', False))
    if not q:
        js.append(job_tokens((1, 3, 1, 2, 1, 2, 1), None, True))
        js.append(job_tokens((0, 2, 1, 2, 1, 4, 1), ',', False))
    js.append(job_ragged((0, 1, 1, 1, 1, 1, 0)))
    js.append(job_ragged((1, 2, 1, 1, 1, 2, 1)))
    js.append(job_ragged((0, 2, 0, 0, 0, 0, 1), nvals=0))
    js.append(job_ragged((0, 1, 1, 2, 1, 1, 0), ','))
    js.append(job_ragged((0, 1, 1, 0, 1, 1, 0), ','))         # an empty field inside the row: not a number => ValueError
    js.append(job_ragged((2, 0, 0, 0, 0, 0, 1), nvals=0))     # a blank (whitespace-only) row: no time stamp => ValueError
    if not q:
        js.append(job_ragged((1, 2, 2, 2, 1, 2, 1)))
        js.append(job_ragged((0, 2, 1, 2, 1, 1, 1), '\t'))
    for (cm, pre, hd) in [('%', '%', False), ('%', '#', False), (None, '#', False), ('#', '#', True), ('#', '', True)]:
        js.append(job_ragged_options(cm, pre, hd))
    for k in (1, 2, 3):
        js.append(job_column_count(k))
    js.append(job_two_lines())
    for loader, ncols in (('load_events', 1), ('load_labeled_events', 2), ('load_intervals', 2), ('load_labeled_intervals', 3), ('load_valued_intervals', 3),
                          ('load_time_series', 2)):
        for rows in ((0, 2) if q else (0, 1, 2, 3)):
            js.append(job_postparse(loader, ncols, rows))
    for rows in (1, 2):
        js.append(job_tempo(rows))
        js.append(job_key(rows))
    return js
