"""Shared input builders and small specification helpers for the property modules."""
import itertools
import math

import numpy as np
import z3

from symx import core as S
from symx.core import SymNum, SymBool, SymArray, is_sym
from symx.harness import Job
import symx.stubs  # noqa: registers scipy stubs


# ---------------------------------------------------------------------------
# symbolic input builders (shape concrete, elements symbolic)

def events(ctx, name, n, lo=0, hi=30000, strict=False, sort=True):
    xs = [ctx.real("%s%d" % (name, i)) for i in range(n)]
    for x in xs:
        ctx.assume(x >= lo)
        ctx.assume(x <= hi)
    if sort:
        for a, b in zip(xs, xs[1:]):
            ctx.assume(a < b if strict else a <= b)
    return S.array(xs) if n else S._wrap(np.zeros((0,), dtype=object))


def grid_events(ctx, name, n, grid, lo=0, hi=30000, strict=False, sort=True):
    xs = [ctx.gridnum("%s%d" % (name, i), grid) for i in range(n)]
    for x in xs:
        ctx.assume(x >= lo)
        ctx.assume(x <= hi)
    if sort:
        for a, b in zip(xs, xs[1:]):
            ctx.assume(a < b if strict else a <= b)
    return S.array(xs) if n else S._wrap(np.zeros((0,), dtype=object))


def empty2():
    return S._wrap(np.zeros((0, 2), dtype=object))


def note_intervals(ctx, name, n, grid=10000, hi=30000):
    """n note intervals (onset, offset) on the 1/grid lattice, positive durations, any order."""
    rows = []
    for i in range(n):
        a = ctx.gridnum("%s_on%d" % (name, i), grid)
        b = ctx.gridnum("%s_off%d" % (name, i), grid)
        ctx.assume(a >= 0)
        ctx.assume(b > a)
        ctx.assume(b <= hi)
        rows.append([a, b])
    return S.array(rows) if n else empty2()


def log_freqs(ctx, name, n, lo=20.0, hi=5000.0):
    """n positive frequencies as log-domain variables (f = 2**l)."""
    out = []
    for i in range(n):
        l = z3.Real("%s_l%d" % (name, i))
        ctx.inputs["%s_l%d" % (name, i)] = l
        ctx.add(l >= z3.RealVal(S.fractions.Fraction(math.log2(lo))), l <= z3.RealVal(S.fractions.Fraction(math.log2(hi))))
        out.append(S.LogNum(l))
    return S.array(out) if n else S._wrap(np.zeros((0,), dtype=object))


def contiguous_intervals(ctx, name, n, start=0, end=None, grid=None):
    """n contiguous intervals from `start` to `end` (symbolic interior boundaries)."""
    mk = (lambda nm: ctx.gridnum(nm, grid)) if grid else ctx.real
    b = [start] + [mk("%s_b%d" % (name, i)) for i in range(1, n)] + [end if end is not None else mk("%s_end" % name)]
    for x, y in zip(b, b[1:]):
        ctx.assume(S._b_cmp('lt')(x, y))
    return S.array([[b[i], b[i + 1]] for i in range(n)]), b


# ---------------------------------------------------------------------------
# matching specification: "k is the size of a maximum matching under predicate T"

def no_larger_matching(T, k):
    """z3/py condition: no one-to-one matching with more than k pairs exists among
    pairs (i, j) with T[i][j] (T entries: SymBool / bool).  Encoded with Boolean
    selection variables that are *universally* quantified by the caller's validity
    query: Not(exists sel . valid(sel) and |sel| >= k+1)."""
    n = len(T)
    m = len(T[0]) if n else 0
    if n == 0 or m == 0:
        return True
    if k >= min(n, m):
        return True
    c = S.cur()
    c.fresh += 1
    tag = c.fresh
    X = [[z3.Bool("sel!%d_%d_%d" % (tag, i, j)) for j in range(m)] for i in range(n)]
    cons = []
    for i in range(n):
        for j in range(m):
            cons.append(z3.Implies(X[i][j], S._zb(T[i][j])))
    for i in range(n):
        cons.append(z3.AtMost(*X[i], 1))
    for j in range(m):
        cons.append(z3.AtMost(*[X[i][j] for i in range(n)], 1))
    cons.append(z3.AtLeast(*[X[i][j] for i in range(n) for j in range(m)], k + 1))
    return SymBool(z3.Not(z3.And(*cons)))


def max_matching_size(T):
    """independent concrete maximum bipartite matching (Kuhn's augmenting paths)."""
    n = len(T)
    m = len(T[0]) if n else 0
    match = [-1] * m

    def aug(i, seen):
        for j in range(m):
            if T[i][j] and j not in seen:
                seen.add(j)
                if match[j] < 0 or aug(match[j], seen):
                    match[j] = i
                    return True
        return False
    return sum(1 for i in range(n) if aug(i, set()))


def absd(a, b):
    d = S._b_sub(a, b)
    return abs(d)


def exists_matching(T, k):
    """for the inputs at hand a one-to-one matching of size >= k exists (explicit Boolean quantifier)."""
    n = len(T)
    m = len(T[0]) if n else 0
    if k <= 0:
        return True
    if k > min(n, m):
        return False
    c = S.cur()
    c.fresh += 1
    tag = c.fresh
    X = [[z3.Bool("ex!%d_%d_%d" % (tag, i, j)) for j in range(m)] for i in range(n)]
    cons = [z3.Implies(X[i][j], S._zb(T[i][j])) for i in range(n) for j in range(m)]
    cons += [z3.AtMost(*X[i], 1) for i in range(n)]
    cons += [z3.AtMost(*[X[i][j] for i in range(n)], 1) for j in range(m)]
    flat = [X[i][j] for i in range(n) for j in range(m)]
    cons.append(z3.AtLeast(*flat, k))
    return SymBool(z3.Exists(flat, z3.And(*cons)))
