"""Builders for every task's evaluate() entry point (used by C03, C14, C15)."""
import contextlib

import numpy as np

import mir_eval.beat as BEAT
import mir_eval.onset as ONSET
import mir_eval.segment as SEG
import mir_eval.chord as CHORD
import mir_eval.melody as MEL
import mir_eval.multipitch as MP
import mir_eval.transcription as TR
import mir_eval.transcription_velocity as TV
import mir_eval.tempo as TEMPO
import mir_eval.key as KEY
import mir_eval.pattern as PAT
import mir_eval.hierarchy as HIER
import mir_eval.alignment as ALIGN

from symx import core as S
from . import common as C
from . import tasks as T


@contextlib.contextmanager
def stubbed(pairs):
    """temporarily replace module attributes (works in symbolic and concrete mode alike)"""
    saved = []
    try:
        for mod, name, repl in pairs:
            saved.append((mod, name, mod.__dict__[name]))
            mod.__dict__[name] = repl
        yield
    finally:
        for mod, name, orig in saved:
            mod.__dict__[name] = orig


# out-of-reach metrics are replaced by constant stubs *with the original signature* in both modes
def _p_score(reference_beats, estimated_beats, p_score_threshold=0.2):
    return 0.25


def _information_gain(reference_beats, estimated_beats, bins=41):
    return 0.125


def _karaoke(reference_timestamps, estimated_timestamps):
    return 0.375


OUT_OF_REACH = {
    'beat': [(BEAT, 'p_score', _p_score), (BEAT, 'information_gain', _information_gain)],
    'alignment': [(ALIGN, 'karaoke_perceptual_metric', _karaoke)],
}

KEYS = {
    'beat': ['F-measure', 'Cemgil', 'Cemgil Best Metric Level', 'Goto', 'P-score', 'Correct Metric Level Continuous',
             'Correct Metric Level Total', 'Any Metric Level Continuous', 'Any Metric Level Total', 'Information gain'],
    'onset': ['F-measure', 'Precision', 'Recall'],
    'segment': ['Precision@0.5', 'Recall@0.5', 'F-measure@0.5', 'Precision@3.0', 'Recall@3.0', 'F-measure@3.0', 'Ref-to-est deviation',
                'Est-to-ref deviation', 'Pairwise Precision', 'Pairwise Recall', 'Pairwise F-measure', 'Rand Index', 'Adjusted Rand Index',
                'Mutual Information', 'Adjusted Mutual Information', 'Normalized Mutual Information', 'NCE Over', 'NCE Under',
                'NCE F-measure', 'V Precision', 'V Recall', 'V-measure'],
    'chord': ['thirds', 'thirds_inv', 'triads', 'triads_inv', 'tetrads', 'tetrads_inv', 'root', 'mirex', 'majmin', 'majmin_inv',
              'sevenths', 'sevenths_inv', 'underseg', 'overseg', 'seg'],
    'melody': ['Voicing Recall', 'Voicing False Alarm', 'Raw Pitch Accuracy', 'Raw Chroma Accuracy', 'Overall Accuracy'],
    'multipitch': ['Precision', 'Recall', 'Accuracy', 'Substitution Error', 'Miss Error', 'False Alarm Error', 'Total Error',
                   'Chroma Precision', 'Chroma Recall', 'Chroma Accuracy', 'Chroma Substitution Error', 'Chroma Miss Error',
                   'Chroma False Alarm Error', 'Chroma Total Error'],
    'transcription': ['Precision', 'Recall', 'F-measure', 'Average_Overlap_Ratio', 'Precision_no_offset', 'Recall_no_offset',
                      'F-measure_no_offset', 'Average_Overlap_Ratio_no_offset', 'Onset_Precision', 'Onset_Recall', 'Onset_F-measure',
                      'Offset_Precision', 'Offset_Recall', 'Offset_F-measure'],
    'transcription_velocity': ['Precision', 'Recall', 'F-measure', 'Average_Overlap_Ratio', 'Precision_no_offset', 'Recall_no_offset',
                               'F-measure_no_offset', 'Average_Overlap_Ratio_no_offset'],
    'tempo': ['P-score', 'One-correct', 'Both-correct'],
    'key': ['Weighted Score'],
    'pattern': ['F', 'P', 'R', 'F_est', 'P_est', 'R_est', 'F_occ.5', 'P_occ.5', 'R_occ.5', 'F_occ.75', 'P_occ.75', 'R_occ.75', 'F_3',
                'P_3', 'R_3', 'FFP', 'FFTP_est'],
    'hierarchy': ['T-Precision reduced', 'T-Recall reduced', 'T-Measure reduced', 'T-Precision full', 'T-Recall full', 'T-Measure full',
                  'L-Precision', 'L-Recall', 'L-Measure'],
    'alignment': ['pc', 'mae', 'aae', 'pcs', 'perceptual'],
}


def labeled_intervals(ctx, name, n, start, grid=100000, maxT=None, labels=None):
    """n contiguous labelled intervals beginning at `start` (symbolic end)."""
    if n == 0:
        return C.empty2(), []
    iv, b = C.contiguous_intervals(ctx, name, n, start=start, grid=grid)
    if maxT is not None:
        ctx.assume(b[-1] <= maxT)
    return iv, (labels if labels is not None else ['%s%d' % (name, i) for i in range(n)])


CHORD_POOL = ['C', 'G:min', 'N', 'A:7/3', 'X', 'F#:maj7', 'C:maj']


class Ev:
    def __init__(self, task, fn, build, sizes, funcs, exact_floats=True, timeout_s=900):
        self.task = task
        self.fn = fn
        self.build = build      # build(ctx, size) -> dict(args=(...), kw={...})
        self.sizes = sizes
        self.funcs = funcs
        self.exact_floats = exact_floats
        self.timeout_s = timeout_s

    def call(self, inp, kw=None):
        k = dict(inp['kw'])
        if kw:
            k.update(kw)
        with stubbed(OUT_OF_REACH.get(self.task, [])):
            return self.fn(*inp['args'], **k)


def _b_beat(ctx, size):
    n, m = size
    return dict(args=(T.beats(ctx, 'r', n), T.beats(ctx, 'e', m)), kw={})


def _b_segment(ctx, size):
    n, m = size[:2]
    maxT = size[2] if len(size) > 2 else 1.0
    r0 = 0.0
    if len(size) > 3:
        r0 = ctx.gridnum('r_start', 100000)
        ctx.assume(r0 >= 0)
    e0 = ctx.gridnum('e_start', 100000)
    ctx.assume(e0 >= 0)
    ri, rl = labeled_intervals(ctx, 'r', n, r0, maxT=maxT)
    ei, el = labeled_intervals(ctx, 'e', m, e0, maxT=maxT + 0.5)
    return dict(args=(ri, rl, ei, el), kw=dict(frame_size=0.5))


def _b_chord(ctx, size):
    n, m = size
    r0 = ctx.real('r_start')
    ctx.assume(r0 >= 0)
    e0 = ctx.real('e_start')
    ctx.assume(e0 >= 0)
    ri, _ = labeled_intervals(ctx, 'r', n, r0, grid=None)
    ei, _ = labeled_intervals(ctx, 'e', m, e0, grid=None)
    rl = [CHORD_POOL[i % len(CHORD_POOL)] for i in range(n)]
    el = [CHORD_POOL[(i + 1) % len(CHORD_POOL)] for i in range(m)]
    return dict(args=(ri, rl, ei, el), kw={})


MEL_LO = 20.0      # lower end of the symbolic melody frequencies (a job may lower it: melody has no documented minimum)


def mel_freqs(ctx, tag, k):
    """k frequencies: each frame is unvoiced (0.0) or voiced with a log-domain symbolic frequency (fork per frame)"""
    out = []
    for i in range(k):
        uv = ctx.boolean('%s_unvoiced%d' % (tag, i))
        if uv:
            out.append(np.float64(0.0))
        else:
            out.append(C.log_freqs(ctx, '%s%d' % (tag, i), 1, lo=MEL_LO)[0])
    return S.array(out) if k else C.events(ctx, tag + 'x', 0)


def _b_melody(ctx, size):
    """size (n, m): m == 0 means 'estimate on the reference's time base' (n frames, all symbolic);
    otherwise the estimate lives on a concrete 0.5 s grid with concrete frequencies (keeps the resampling linear)."""
    n, m = size
    # times on the 2^-10 lattice: rounding to 10 decimals (resample_melody_series) is the identity there
    rt = C.grid_events(ctx, 'rt', n, 1024, strict=True)
    rf = mel_freqs(ctx, 'rf', n)
    if m == 0:
        return dict(args=(rt, rf, rt.copy(), mel_freqs(ctx, 'ef', n)), kw={})
    et = S._wrap(np.arange(m) * 0.5)
    ef = S._wrap(np.array([220.0, 0.0, 440.0, 330.0][:m]))
    ctx.assume(rt[n - 1] <= 4)
    return dict(args=(rt, rf, et, ef), kw={})


def _b_multipitch(ctx, size):
    d = T.b_multipitch(1)(ctx, size)
    return dict(args=(d['ref'][0], d['ref'][1], d['est'][0], d['est'][1]), kw={})


def _b_transcription(ctx, size):
    d = T.b_notes()(ctx, size)
    return dict(args=(d['ref'][0], d['ref'][1], d['est'][0], d['est'][1]), kw={})


def _b_velocity(ctx, size):
    d = T.b_notes(velocity=True)(ctx, size)
    return dict(args=d['ref'] + d['est'], kw={})


def _b_tempo(ctx, size):
    d = T.b_tempo(ctx, size)
    return dict(args=(d['ref'][0], d['ref'][1], d['est'][0]), kw={})


def _b_key(ctx, size):
    d = T.b_key(ctx, size)
    return dict(args=(d['ref'][0], d['est'][0]), kw={})


def _key_eval(r, e, **kw):
    r = r.get() if isinstance(r, T.KeyIdx) else r
    e = e.get() if isinstance(e, T.KeyIdx) else e
    return KEY.evaluate(r, e, **kw)


def _b_pattern(ctx, size):
    d = T.b_patterns((1, 1), 1)(ctx, size)
    return dict(args=(d['ref'][0], d['est'][0]), kw={})


def _b_hier(ctx, size):
    d = T.b_hier(2, 0.5, 2.0, labels=True)(ctx, size)
    return dict(args=(d['ref'][0], d['ref'][1], d['est'][0], d['est'][1]), kw=dict(frame_size=0.5))


def _b_hier_spans(ctx, size):
    """two-level hierarchies whose durations are independent: the estimate may end before or after the reference"""
    n, m = size[:2]
    out = []
    for tag, k in (('r', n), ('e', m)):
        Tt = ctx.gridnum('T' + tag, 100000)
        ctx.assume(Tt > 0)
        ctx.assume(Tt <= 2.0)
        hs = [T.seg_intervals(ctx, '%s0_' % tag, 1, Tt), T.seg_intervals(ctx, '%s1_' % tag, k, Tt)]
        ls = [['%s0_0' % tag], ['%s1_%d' % (tag, i) for i in range(k)]]
        out += [hs, ls]
    return dict(args=tuple(out), kw=dict(frame_size=0.5))


def _b_align(ctx, size):
    d = T.b_alignment('pcs')(ctx, size)
    return dict(args=(d['ref'][0], d['est'][0]), kw={})


def _sz(q, t):
    return dict(quick=q, thorough=t)


EVALS = [
    Ev('beat', BEAT.evaluate, _b_beat, _sz([(0, 0), (1, 1), (0, 2), (2, 0), (2, 1)], [(0, 0), (1, 1), (0, 2), (2, 0), (2, 1), (1, 2)]),
       ['beat.evaluate', 'beat.trim_beats', 'util.filter_kwargs'], timeout_s=1800),
    Ev('onset', ONSET.evaluate, _b_beat, _sz([(0, 0), (1, 1), (2, 2), (0, 1)], [(0, 0), (1, 1), (2, 2), (0, 1), (3, 3)]), ['onset.evaluate']),
    Ev('segment', SEG.evaluate, _b_segment, _sz([(1, 1, 1.0), (0, 1, 1.0), (1, 0, 1.0)], [(1, 1, 1.0), (0, 1, 1.0), (1, 0, 1.0), (2, 1, 1.0), (1, 2, 1.0), (1, 1, 1.5, 'free ref start')]),
       ['segment.evaluate', 'util.adjust_intervals'], exact_floats=False, timeout_s=1800),
    Ev('chord', CHORD.evaluate, _b_chord, _sz([(1, 1), (2, 1), (1, 2), (0, 1), (1, 0)], [(1, 1), (2, 1), (1, 2), (0, 1), (1, 0), (2, 2)]),
       ['chord.evaluate', 'chord.merge_chord_intervals', 'util.adjust_intervals', 'util.merge_labeled_intervals'], timeout_s=1800),
    Ev('melody', MEL.evaluate, _b_melody, _sz([(0, 0), (1, 0), (2, 0), (1, 2), (2, 3)], [(0, 0), (1, 0), (2, 0), (3, 0), (1, 2), (2, 3), (3, 3)]),
       ['melody.evaluate', 'melody.to_cent_voicing', 'melody.resample_melody_series', 'melody.freq_to_voicing', 'melody.hz2cents'],
       exact_floats=False, timeout_s=1800),
    Ev('multipitch', MP.evaluate, _b_multipitch, _sz([(1, 1), (2, 1), (0, 1)], [(1, 1), (2, 1), (0, 1), (2, 2)]), ['multipitch.evaluate'],
       exact_floats=False, timeout_s=1800),
    Ev('transcription', TR.evaluate, _b_transcription, _sz([(0, 1), (1, 1), (1, 2)], [(0, 1), (1, 1), (1, 2), (2, 1)]), ['transcription.evaluate'],
       exact_floats=False, timeout_s=1800),
    Ev('tempo', TEMPO.evaluate, _b_tempo, _sz([(2, 2)], [(2, 2)]), ['tempo.evaluate']),
    Ev('key', _key_eval, _b_key, _sz([(8, 8)], [(len(T.KEY_STRINGS), len(T.KEY_STRINGS))]), ['key.evaluate']),
    Ev('pattern', PAT.evaluate, _b_pattern, _sz([(1, 1), (2, 1), (0, 1)], [(1, 1), (2, 1), (0, 1), (2, 2)]), ['pattern.evaluate'], timeout_s=1800),
    Ev('hierarchy', HIER.evaluate, _b_hier, _sz([(2, 2)], [(2, 2), (2, 3)]), ['hierarchy.evaluate', 'hierarchy._align_intervals'],
       exact_floats=False, timeout_s=1800),
    Ev('alignment', ALIGN.evaluate, _b_align, _sz([(2,), (3,)], [(2,), (3,), (4,)]), ['alignment.evaluate']),
]


def by_task(task):
    for e in EVALS:
        if e.task == task:
            return e
    raise KeyError(task)
