"""Helper predicates usable in the 'when' expressions of known_findings.json (evaluated on the concrete witness inputs)."""
import math
import numpy as np


def frame_labels(intervals, labels, fs):
    """frame k (time k*fs, k < floor(max/fs)) -> lower-cased label of the last interval whose closed span contains it"""
    iv = np.asarray(intervals, dtype=float)
    if iv.size == 0:
        return []
    n = int(math.floor(iv.max() / fs))
    out = []
    for k in range(n):
        t = float(np.float32(k)) * fs
        lab = None
        for (a, b), l in zip(iv, labels):
            if a <= t <= b:
                lab = str(l).lower()
        out.append(lab)
    return out


def degenerate_frames(inputs):
    """True when either annotation of a segment labelling job has no two frames sharing a label, or no label appearing on
    two frames / fewer than two frames - the 0/0 situations of the pairwise / Rand / (A)MI indices."""
    fs = inputs['kw']['frame_size']
    for side in ('ref', 'est'):
        fl = frame_labels(inputs[side][0], inputs[side][1], fs)
        if len(fl) < 2 or len(set(fl)) == len(fl):
            return True
    return False


def all_singletons_or_short(inputs):
    return degenerate_frames(inputs)


def notes_confusable(inputs, onset_tol=0.05, pitch_tol=50.0):
    """True when two *different* notes of the annotation are within the onset and pitch tolerances of each other, so that a
    maximum matching of the annotation with its own copy need not be the identity pairing"""
    iv, p = np.asarray(inputs['ref'][0], dtype=float), np.asarray(inputs['ref'][1], dtype=float)
    kw = inputs.get('kw', {}) or {}
    onset_tol = kw.get('onset_tolerance', onset_tol)
    pitch_tol = kw.get('pitch_tolerance', pitch_tol)
    n = len(p)
    for i in range(n):
        for j in range(n):
            if i != j and abs(iv[i, 0] - iv[j, 0]) <= onset_tol + 1e-12 and abs(1200 * np.log2(p[i] / p[j])) <= pitch_tol + 1e-9:
                return True
    return False


def melody_at_cent_base(inputs, base=10.0, rel=1e-6):
    """True when some reference or estimated melody frequency equals the base frequency of the cent scale (10 Hz), before or
    after the joint scaling by inputs['F']: hz2cents maps it to 0 cents, which the pitch accuracies read as 'unvoiced'"""
    F = float(inputs.get('F', 1.0))
    for key in ('rf', 'ef'):
        for f in np.asarray(inputs[key], dtype=float).reshape(-1):
            for g in (abs(f), abs(f) * F):
                if g > 0 and abs(g - base) <= rel * base:
                    return True
    return False
