"""Helper predicates usable in the 'when' expressions of known_findings.json (evaluated on the concrete witness inputs)."""
import math
import numpy as np


def frame_labels(intervals, labels, fs):
    """frame k (time k*fs, k < floor(max/fs)) -> lower-cased label of the last interval whose closed span contains it"""
    iv = np.asarray(intervals, dtype=float)
    if iv.size == 0:
        return []
    n = int(math.floor(iv.max() / fs))
    out = []
    for k in range(n):
        t = float(np.float32(k)) * fs
        lab = None
        for (a, b), l in zip(iv, labels):
            if a <= t <= b:
                lab = str(l).lower()
        out.append(lab)
    return out


def degenerate_frames(inputs):
    """True when either annotation of a segment labelling job has no two frames sharing a label, or no label appearing on
    two frames / fewer than two frames - the 0/0 situations of the pairwise / Rand / (A)MI indices."""
    fs = inputs['kw']['frame_size']
    for side in ('ref', 'est'):
        fl = frame_labels(inputs[side][0], inputs[side][1], fs)
        if len(fl) < 2 or len(set(fl)) == len(fl):
            return True
    return False


def all_singletons_or_short(inputs):
    return degenerate_frames(inputs)
