"""Task-metric table shared by C01/C02/C06/C07/C08/C14/C15.

Every entry describes one public metric function: how to build symbolic inputs of a
given (concrete) shape under the module's documented conventions, how to call it as
f(*ref, *est, **kw), what kind of value each output is, and which relational
properties apply to it.
"""
import itertools
import math

import numpy as np
import z3

import mir_eval
import mir_eval.beat as BEAT
import mir_eval.onset as ONSET
import mir_eval.segment as SEG
import mir_eval.chord as CHORD
import mir_eval.melody as MEL
import mir_eval.multipitch as MP
import mir_eval.transcription as TR
import mir_eval.transcription_velocity as TV
import mir_eval.tempo as TEMPO
import mir_eval.key as KEY
import mir_eval.pattern as PAT
import mir_eval.hierarchy as HIER
import mir_eval.alignment as ALIGN

from symx import core as S
from symx.core import SymNum, SymBool, is_sym
from . import common as C


def flat(r):
    if isinstance(r, (tuple, list)):
        return tuple(r)
    return (r,)


class Spec:
    def __init__(self, name, fn, build, outs, sizes, funcs=None, perfect=None, nondegen=None, swap=None, mono=None, shift=None,
                 exact_floats=True, nested=None, kwbuild=None, empty_ok=True, perm=None, timeout_s=900, skip=()):
        self.name = name
        self.fn = fn
        self.build = build          # build(ctx, size) -> dict(ref=(...), est=(...), kw={...})
        self.outs = outs            # [(name, kind)]
        self.sizes = sizes          # dict tier -> list of sizes
        self.funcs = funcs or [name]
        self.perfect = perfect      # list of perfect values (None = not asserted) for f(x, x)
        self.nondegen = nondegen    # nondegen(ctx, inp) adds the non-degeneracy assumptions of C02
        self.swap = swap            # output permutation under exchange of ref and est
        self.mono = mono            # [(kw name, [output indices that must not decrease])]
        self.shift = shift          # shift(inp, delta) -> shifted inputs (C08)
        self.exact_floats = exact_floats
        self.nested = nested        # [(i, j)]: out[i] <= out[j] on every input (C07)
        self.perm = perm            # perm(inp) -> list of permuted inputs whose outputs must equal (C08)
        self.timeout_s = timeout_s
        self.skip = set(skip)       # property ids this spec is excluded from (with reason in DESIGN)

    def call(self, inp, swap=False, kw=None):
        k = dict(inp['kw'])
        if kw:
            k.update(kw)
        if swap:
            return flat(self.fn(*inp['est'], *inp['ref'], **k))
        return flat(self.fn(*inp['ref'], *inp['est'], **k))


def cp(x):
    """copy of a (possibly symbolic) argument, sharing the same terms"""
    if isinstance(x, np.ndarray):
        return x.copy()
    if isinstance(x, list):
        return [cp(v) for v in x]
    if isinstance(x, tuple):
        return tuple(cp(v) for v in x)
    return x


# ---------------------------------------------------------------------------
# builders

def beats(ctx, name, n, lo=0.0):
    return C.events(ctx, name, n, lo=lo)


def posreal(ctx, name, hi=None, lo_strict=True):
    v = ctx.real(name)
    ctx.assume(v > 0 if lo_strict else v >= 0)
    if hi is not None:
        ctx.assume(v <= hi)
    return v


def b_events(kwname=None, kwhi=None):
    def build(ctx, size):
        n, m = size
        d = dict(ref=(beats(ctx, 'r', n),), est=(beats(ctx, 'e', m),), kw={})
        if kwname:
            d['kw'][kwname] = posreal(ctx, kwname, kwhi)
        return d
    return build


def shift_events(inp, delta):
    return dict(ref=tuple(a + delta for a in inp['ref']), est=tuple(a + delta for a in inp['est']), kw=dict(inp['kw']))


def seg_intervals(ctx, name, n, T, grid=100000):
    if n == 0:
        return C.empty2()
    iv, b = C.contiguous_intervals(ctx, name, n, start=0.0, end=T, grid=grid)
    return iv


LABEL_PATTERNS = {1: [['a']], 2: [['a', 'b'], ['a', 'a']], 3: [['a', 'b', 'c'], ['a', 'b', 'a'], ['a', 'a', 'b'], ['a', 'b', 'b'], ['a', 'a', 'a']]}


def b_boundary(trim=False, sym_window=True):
    def build(ctx, size):
        n, m = size
        T = ctx.gridnum('T', 100000)
        ctx.assume(T > 0)
        ctx.assume(T <= 30000)
        d = dict(ref=(seg_intervals(ctx, 'r', n, T),), est=(seg_intervals(ctx, 'e', m, T),), kw={})
        if sym_window:
            d['kw']['window'] = posreal(ctx, 'window')
        if trim:
            d['kw']['trim'] = True
        return d
    return build


def b_structure(fs, maxT, rl=None, el=None, beta=False):
    """labelled segmentations with a common end T <= maxT, frame size fs (concrete)."""
    def build(ctx, size):
        n, m = size
        T = ctx.gridnum('T', 100000)
        ctx.assume(T > 0)
        ctx.assume(T <= maxT)
        rlab = list(rl) if rl is not None else ['r%d' % i for i in range(n)]
        elab = list(el) if el is not None else ['e%d' % i for i in range(m)]
        d = dict(ref=(seg_intervals(ctx, 'r', n, T), rlab), est=(seg_intervals(ctx, 'e', m, T), elab), kw=dict(frame_size=fs))
        if beta:
            d['kw']['beta'] = posreal(ctx, 'beta')
        return d
    return build


def b_melody(cents=True, tol=True):
    def build(ctx, size):
        n = size[0]
        rv = [ctx.real('rv%d' % i) for i in range(n)]
        ev = [ctx.real('ev%d' % i) for i in range(n)]
        for v in rv + ev:
            ctx.assume(v >= 0)
            ctx.assume(v <= 1)
        if not cents:
            return dict(ref=(S.array(rv) if n else C.events(ctx, 'x', 0),), est=(S.array(ev) if n else C.events(ctx, 'y', 0),), kw={})
        rc = [ctx.real('rc%d' % i) for i in range(n)]
        ec = [ctx.real('ec%d' % i) for i in range(n)]
        for v in rc + ec:
            ctx.assume(v >= 0)
            ctx.assume(v <= 12000)
        e0 = C.events(ctx, 'x', 0)
        d = dict(ref=(S.array(rv) if n else e0, S.array(rc) if n else e0.copy()),
                 est=(S.array(ev) if n else e0.copy(), S.array(ec) if n else e0.copy()), kw={})
        if tol:
            d['kw']['cent_tolerance'] = posreal(ctx, 'cent_tolerance', 600)
        return d
    return build


def b_multipitch(nf=1):
    def build(ctx, size):
        n, m = size          # frames on each side; nf frequencies per frame
        rt = C.events(ctx, 'rt', n, strict=True)
        et = C.events(ctx, 'et', m, strict=True)
        rf = [C.log_freqs(ctx, 'rf%d_' % i, nf) for i in range(n)]
        ef = [C.log_freqs(ctx, 'ef%d_' % i, nf) for i in range(m)]
        w = posreal(ctx, 'window', 6)
        return dict(ref=(rt, rf), est=(et, ef), kw=dict(window=w))
    return build


def b_notes(offset_ratio='default', velocity=False, tol_kw=(), grid=10000):
    def build(ctx, size):
        n, m = size
        ri = C.note_intervals(ctx, 'r', n, grid=grid)
        ei = C.note_intervals(ctx, 'e', m, grid=grid)
        rp = C.log_freqs(ctx, 'rp', n)
        ep = C.log_freqs(ctx, 'ep', m)
        kw = {}
        if offset_ratio != 'default':
            kw['offset_ratio'] = offset_ratio
        for k in tol_kw:
            kw[k] = posreal(ctx, k)
        if velocity:
            rv = C.events(ctx, 'rv', n, lo=0, hi=127, sort=False)
            ev = C.events(ctx, 'ev', m, lo=0, hi=127, sort=False)
            return dict(ref=(ri, rp, rv), est=(ei, ep, ev), kw=kw)
        return dict(ref=(ri, rp), est=(ei, ep), kw=kw)
    return build


def b_note_intervals(tol_kw=(), **fixed):
    def build(ctx, size):
        n, m = size
        kw = dict(fixed)
        for k in tol_kw:
            kw[k] = posreal(ctx, k)
        return dict(ref=(C.note_intervals(ctx, 'r', n),), est=(C.note_intervals(ctx, 'e', m),), kw=kw)
    return build


def b_tempo(ctx, size):
    rt = [ctx.real('rt0'), ctx.real('rt1')]
    et = [ctx.real('et0'), ctx.real('et1')]
    for v in rt + et:
        ctx.assume(v >= 0)
    ctx.assume(S._lor(rt[0] > 0, rt[1] > 0))
    w = ctx.real('weight')
    ctx.assume(w >= 0)
    ctx.assume(w <= 1)
    tol = ctx.real('tol')
    ctx.assume(tol >= 0)
    ctx.assume(tol <= 1)
    return dict(ref=(S.array(rt), w), est=(S.array(et),), kw=dict(tol=tol))


KEYS = sorted(KEY.KEY_TO_SEMITONE.keys(), key=str)
KEY_STRINGS = ['%s %s' % (k, m) for k in KEYS if k != 'x' for m in ('major', 'minor', 'other')] + ['x']


def key_domain(k):
    """first k entries of a fixed interleaving of the key strings (k = len(KEY_STRINGS): the whole domain)"""
    if k >= len(KEY_STRINGS):
        return KEY_STRINGS
    step = 7
    # start with a core that exercises every relation of the score table (same key, fifth, relative major/minor in both
    # directions, parallel, 'other' mode, enharmonic spellings); the rest follows by stride
    core = ['c major', 'a minor', 'g major', 'e minor', 'c minor', 'eb major', 'f# other', 'db major', 'bb minor', 'b minor', 'd major', 'gb minor']
    order = [k for k in core if k in KEY_STRINGS] + [KEY_STRINGS[(i * step) % len(KEY_STRINGS)] for i in range(len(KEY_STRINGS))]
    seen, out = set(), []
    for x in order + KEY_STRINGS:
        if x not in seen:
            seen.add(x)
            out.append(x)
    return out[:k - 1] + ['x']


def b_key(ctx, size):
    dom = key_domain(size[0])
    i = ctx.integer('ref_key_index')
    j = ctx.integer('est_key_index')
    for v in (i, j):
        ctx.assume(v >= 0)
        ctx.assume(v < len(dom))
    return dict(ref=(KeyIdx(i, dom),), est=(KeyIdx(j, dom),), kw={})


class KeyIdx:
    """symbolic index into the finite list of key strings; realised (enumerated) on use"""

    def __init__(self, i, dom):
        self.i = i
        self.dom = dom

    def __concretize__(self, model):
        from symx.harness import conc_scalar
        return self.dom[int(conc_scalar(self.i, model))]

    def get(self):
        return self.dom[S.sym_int(self.i)]


def key_call(r, e):
    r = r.get() if isinstance(r, KeyIdx) else r
    e = e.get() if isinstance(e, KeyIdx) else e
    return KEY.weighted_score(r, e)


def b_patterns(occ=(1, 1), notes=1, thres=False, fixed_kw=None):
    """size = (n ref patterns, m est patterns); each pattern has occ[k] occurrences of `notes` notes (an int, or a pair
    (notes per reference occurrence, notes per estimated occurrence))."""
    def build(ctx, size):
        d = build0(ctx, size)
        if thres:
            t = ctx.real('thres')
            ctx.assume(t > 0)
            ctx.assume(t <= 1)
            d['kw']['thres'] = t
        if fixed_kw:
            d['kw'].update(fixed_kw)
        return d

    def build0(ctx, size):
        n, m = size

        nn = notes if isinstance(notes, tuple) else (notes, notes)

        def pats(tag, k, nocc):
            out = []
            for p in range(k):
                pat = []
                for o in range(nocc):
                    occn = []
                    for q in range(nn[0] if tag == 'r' else nn[1]):
                        on = ctx.real('%s%d_%d_on%d' % (tag, p, o, q))
                        mi = ctx.real('%s%d_%d_m%d' % (tag, p, o, q))
                        ctx.assume(on >= 0)
                        ctx.assume(mi >= 0)
                        ctx.assume(mi <= 127)
                        occn.append((on, mi))
                    pat.append(occn)
                out.append(pat)
            return out
        return dict(ref=(pats('r', n, occ[0]),), est=(pats('e', m, occ[1]),), kw={})
    return build


def shift_patterns(inp, delta):
    def sh(pats):
        return [[[(on + delta, mi) for (on, mi) in occ] for occ in pat] for pat in pats]
    return dict(ref=(sh(inp['ref'][0]),), est=(sh(inp['est'][0]),), kw=dict(inp['kw']))


def b_alignment(kwname=None):
    def build(ctx, size):
        n = size[0]
        d = dict(ref=(beats(ctx, 'r', n),), est=(beats(ctx, 'e', n),), kw={})
        if kwname == 'window':
            d['kw']['window'] = posreal(ctx, 'window')
        if kwname == 'duration':
            dur = ctx.real('duration')
            ctx.assume(dur > 0)
            ctx.assume(dur >= d['ref'][0][n - 1])
            ctx.assume(dur >= d['est'][0][n - 1])
            d['kw']['duration'] = dur
        if kwname == 'pcs':
            ctx.assume(d['ref'][0][n - 1] > d['ref'][0][0])
        return d
    return build


def b_hier(levels, fs, maxT, labels=False, window='none', transitive=False):
    """size = (segments at the finest level ref, est).  level 0 = one segment, deeper levels split it."""
    def build(ctx, size):
        n, m = size
        T = ctx.gridnum('T', 100000)
        ctx.assume(T > 0)
        ctx.assume(T <= maxT)

        def hier(tag, k):
            hs, ls = [], []
            for lv in range(levels):
                cnt = 1 if lv == 0 else (k if lv == levels - 1 else min(2, k))
                hs.append(seg_intervals(ctx, '%s%d_' % (tag, lv), cnt, T))
                ls.append(['%s%d_%d' % (tag, lv, i % 2 if labels == 'repeat' else i) for i in range(cnt)])
            return hs, ls
        rh, rl = hier('r', n)
        eh, el = hier('e', m)
        kw = dict(frame_size=fs)
        if labels:
            return dict(ref=(rh, rl), est=(eh, el), kw=kw)
        kw['transitive'] = transitive
        kw['window'] = None if window == 'none' else window
        return dict(ref=(rh,), est=(eh,), kw=kw)
    return build


def b_hier_counts(ref_counts, est_counts, fs, maxT, labels=False, window='none', transitive=False):
    """hierarchies with the given number of segments per level; boundaries of different levels are independent
    (so the hierarchy need not be nested: a deeper segment may straddle a shallower boundary)"""
    def build(ctx, size=None):
        T = ctx.gridnum('T', 100000)
        ctx.assume(T > 0)
        ctx.assume(T <= maxT)

        def hier(tag, counts):
            hs, ls = [], []
            for lv, cnt in enumerate(counts):
                hs.append(seg_intervals(ctx, '%s%d_' % (tag, lv), cnt, T))
                ls.append(['%s%d_%d' % (tag, lv, i % 2 if labels == 'repeat' else i) for i in range(cnt)])
            return hs, ls
        rh, rl = hier('r', ref_counts)
        eh, el = hier('e', est_counts)
        kw = dict(frame_size=fs)
        if labels:
            return dict(ref=(rh, rl), est=(eh, el), kw=kw)
        kw['transitive'] = transitive
        kw['window'] = None if window == 'none' else window
        return dict(ref=(rh,), est=(eh,), kw=kw)
    return build


def b_weighted_accuracy(ctx, size):
    n = size[0]
    comps = []
    ws = []
    for i in range(n):
        c = ctx.integer('c%d' % i)
        ctx.assume(c >= -1)
        ctx.assume(c <= 1)
        w = ctx.real('w%d' % i)
        ctx.assume(w >= 0)
        comps.append(c)
        ws.append(w)
    return dict(ref=(S.array(comps),), est=(S.array(ws),), kw={})


def b_chord_seg(ctx, size):
    n, m = size
    t0 = ctx.real('t0')
    ctx.assume(t0 >= 0)
    T = ctx.real('T')
    ctx.assume(T > t0)
    r, _ = C.contiguous_intervals(ctx, 'r', n, start=t0, end=T)
    e, _ = C.contiguous_intervals(ctx, 'e', m, start=t0, end=T)
    return dict(ref=(r,), est=(e,), kw={})


# ---------------------------------------------------------------------------
# the table

def _sz(q, t):
    return dict(quick=q, thorough=t)


EV_Q = [(0, 0), (0, 2), (2, 0), (1, 1), (2, 2), (3, 3)]
EV_T = EV_Q + [(1, 3), (3, 2), (4, 4)]
UNIT3 = [('a', 'unit'), ('b', 'unit'), ('c', 'unit')]

SPECS = []


def add(*a, **k):
    SPECS.append(Spec(*a, **k))


# ---- beat
add('beat.f_measure', BEAT.f_measure, b_events('f_measure_threshold'), [('F', 'unit')], _sz(EV_Q, EV_T),
    funcs=['beat.f_measure', 'beat.validate', 'util.match_events', 'util.f_measure'],
    perfect=[1], swap=[0], mono=[('f_measure_threshold', [0])], shift=shift_events)
add('beat.cemgil', BEAT.cemgil, b_events(), [('cemgil', 'unit'), ('cemgil_best', 'unit')],
    _sz([(0, 1), (1, 1), (2, 1), (1, 2)], [(0, 1), (1, 1), (2, 1), (1, 2), (2, 2), (3, 1)]),
    funcs=['beat.cemgil', 'beat._get_reference_beat_variations'], perfect=[1, 1], nested=[(0, 1)], shift=shift_events, timeout_s=1200,
    skip=('C06',))
add('beat.goto', BEAT.goto, b_events(), [('goto', 'binary')], _sz([(0, 1), (1, 1), (2, 2), (3, 1)], [(0, 1), (1, 1), (2, 2), (3, 2), (4, 1)]),
    funcs=['beat.goto'], shift=shift_events, skip=('C06',))
add('beat.continuity', BEAT.continuity, b_events(), [('CMLc', 'unit'), ('CMLt', 'unit'), ('AMLc', 'unit'), ('AMLt', 'unit')],
    _sz([(0, 1), (1, 2), (2, 2)], [(0, 1), (1, 2), (2, 2), (1, 3), (3, 1)]), funcs=['beat.continuity'],
    nested=[(0, 1), (2, 3), (0, 2), (1, 3)], shift=shift_events, timeout_s=1800, skip=('C06',))

# ---- onset
add('onset.f_measure', ONSET.f_measure, b_events('window'), [('F', 'unit'), ('P', 'unit'), ('R', 'unit')], _sz(EV_Q, EV_T),
    funcs=['onset.f_measure', 'onset.validate', 'util.match_events'], perfect=[1, 1, 1], swap=[0, 2, 1], mono=[('window', [0, 1, 2])],
    shift=shift_events)

# ---- segment boundaries
SEGB_Q = [(1, 1), (2, 1), (2, 2), (0, 1), (1, 0)]
SEGB_T = SEGB_Q + [(3, 1), (1, 3)]
add('segment.detection', SEG.detection, b_boundary(), [('P', 'unit'), ('R', 'unit'), ('F', 'unit')], _sz(SEGB_Q, SEGB_T),
    funcs=['segment.detection', 'segment.validate_boundary', 'util.intervals_to_boundaries', 'util.match_events'],
    perfect=[1, 1, 1], swap=[1, 0, 2], mono=[('window', [0, 1, 2])], exact_floats=False)
add('segment.detection[trim]', SEG.detection, b_boundary(trim=True), [('P', 'unit'), ('R', 'unit'), ('F', 'unit')],
    _sz([(1, 1), (2, 2), (3, 2)], [(1, 1), (2, 2), (3, 2), (3, 3)]), funcs=['segment.detection'],
    swap=[1, 0, 2], mono=[('window', [0, 1, 2])], exact_floats=False)
add('segment.deviation', SEG.deviation, b_boundary(sym_window=False), [('ref_to_est', 'nonneg_or_nan'), ('est_to_ref', 'nonneg_or_nan')],
    _sz(SEGB_Q, SEGB_T), funcs=['segment.deviation'], perfect=[0, 0], swap=[1, 0], exact_floats=False)

add('segment.deviation[trim]', SEG.deviation, b_boundary(trim=True, sym_window=False), [('ref_to_est', 'nonneg_or_nan'), ('est_to_ref', 'nonneg_or_nan')],
    _sz([(2, 2), (3, 2)], [(2, 2), (3, 2), (2, 3), (3, 3)]), funcs=['segment.deviation'], perfect=[0, 0], swap=[1, 0], exact_floats=False, skip=('C02',))

# ---- segment structure (frame clustering); label patterns are added by the property modules
STRUCT = {
    'segment.pairwise': (SEG.pairwise, [('P', 'unit'), ('R', 'unit'), ('F', 'unit')], [1, 1, 1], [1, 0, 2]),
    'segment.rand_index': (SEG.rand_index, [('rand', 'unit')], [1], [0]),
    'segment.ari': (SEG.ari, [('ari', 'le1')], [1], [0]),
    'segment.mutual_information': (SEG.mutual_information, [('MI', 'nonneg'), ('AMI', 'le1'), ('NMI', 'unit')], [None, 1, 1], [0, 1, 2]),
    'segment.nce': (SEG.nce, [('over', 'unit'), ('under', 'unit'), ('F', 'unit')], [1, 1, 1], [1, 0, 2]),
    'segment.vmeasure': (SEG.vmeasure, [('P', 'unit'), ('R', 'unit'), ('V', 'unit')], [1, 1, 1], [1, 0, 2]),
}

# ---- melody frame measures
MEL_Q = [(0,), (1,), (2,), (3,)]
MEL_T = MEL_Q + [(4,)]
add('melody.voicing_measures', MEL.voicing_measures, b_melody(cents=False), [('recall', 'unit'), ('false_alarm', 'unit')], _sz(MEL_Q, MEL_T),
    funcs=['melody.voicing_measures', 'melody.voicing_recall', 'melody.voicing_false_alarm', 'melody.validate_voicing'], perfect=None)
for _n, _f in (('raw_pitch_accuracy', MEL.raw_pitch_accuracy), ('raw_chroma_accuracy', MEL.raw_chroma_accuracy),
               ('overall_accuracy', MEL.overall_accuracy)):
    add('melody.' + _n, _f, b_melody(), [(_n, 'unit')], _sz(MEL_Q, MEL_T if _n != 'raw_chroma_accuracy' else MEL_Q),
        funcs=['melody.' + _n, 'melody.validate', 'melody.validate_voicing'], mono=[('cent_tolerance', [0])])

# ---- multipitch
add('multipitch.metrics', MP.metrics, b_multipitch(1),
    [('P', 'unit'), ('R', 'unit'), ('Acc', 'unit'), ('Esub', 'nonneg'), ('Emiss', 'nonneg'), ('Efa', 'nonneg'), ('Etot', 'nonneg'),
     ('Pc', 'unit'), ('Rc', 'unit'), ('Accc', 'unit'), ('Esubc', 'nonneg'), ('Emissc', 'nonneg'), ('Efac', 'nonneg'), ('Etotc', 'nonneg')],
    _sz([(1, 1), (2, 1), (0, 1), (1, 0)], [(1, 1), (2, 1), (0, 1), (1, 0), (2, 2), (1, 2)]),
    funcs=['multipitch.metrics', 'multipitch.validate', 'multipitch.resample_multipitch', 'multipitch.compute_num_true_positives'],
    perfect=[1, 1, 1, 0, 0, 0, 0, 1, 1, 1, 0, 0, 0, 0], mono=[('window', [0, 1, 2, 7, 8, 9])], nested=[(0, 7), (1, 8), (2, 9)],
    exact_floats=False, shift=lambda inp, d: dict(ref=(inp['ref'][0] + d, inp['ref'][1]), est=(inp['est'][0] + d, inp['est'][1]), kw=dict(inp['kw'])),
    timeout_s=1200)

# ---- transcription
NOTE_Q = [(0, 1), (1, 0), (1, 1), (2, 2)]
NOTE_T = NOTE_Q + [(2, 3), (3, 2)]


def shift_notes(inp, d):
    return dict(ref=(inp['ref'][0] + d,) + tuple(inp['ref'][1:]), est=(inp['est'][0] + d,) + tuple(inp['est'][1:]), kw=dict(inp['kw']))


add('transcription.precision_recall_f1_overlap', TR.precision_recall_f1_overlap, b_notes(), [('P', 'unit'), ('R', 'unit'), ('F', 'unit'), ('AOR', 'le1')],
    _sz(NOTE_Q, NOTE_T), funcs=['transcription.precision_recall_f1_overlap', 'transcription.match_notes', 'transcription.validate',
                                'transcription.average_overlap_ratio'], perfect=[1, 1, 1, 1], exact_floats=False, shift=shift_notes)
add('transcription.precision_recall_f1_overlap[no offset]', TR.precision_recall_f1_overlap, b_notes(offset_ratio=None, tol_kw=('onset_tolerance', 'pitch_tolerance')),
    [('P', 'unit'), ('R', 'unit'), ('F', 'unit'), ('AOR', 'le1')], _sz(NOTE_Q, NOTE_T), funcs=['transcription.precision_recall_f1_overlap'],
    perfect=[1, 1, 1, 1], swap=[1, 0, 2, None], mono=[('onset_tolerance', [0, 1, 2]), ('pitch_tolerance', [0, 1, 2])], exact_floats=False,
    shift=shift_notes)
add('transcription.onset_precision_recall_f1', TR.onset_precision_recall_f1, b_note_intervals(tol_kw=('onset_tolerance',)), UNIT3, _sz(NOTE_Q, NOTE_T),
    funcs=['transcription.onset_precision_recall_f1', 'transcription.match_note_onsets'], perfect=[1, 1, 1], swap=[1, 0, 2],
    mono=[('onset_tolerance', [0, 1, 2])], exact_floats=False, shift=shift_notes)
add('transcription.offset_precision_recall_f1', TR.offset_precision_recall_f1, b_note_intervals(tol_kw=('offset_min_tolerance',), offset_ratio=0.25), UNIT3,
    _sz(NOTE_Q, NOTE_T), funcs=['transcription.offset_precision_recall_f1', 'transcription.match_note_offsets'], perfect=[1, 1, 1],
    mono=[('offset_min_tolerance', [0, 1, 2])], exact_floats=False, shift=shift_notes)

# ---- transcription with velocities: the regression (np.linalg.lstsq) is nondeterministic, results hold for any slope/intercept
add('transcription_velocity.precision_recall_f1_overlap', TV.precision_recall_f1_overlap, b_notes(velocity=True, tol_kw=('velocity_tolerance',)),
    [('P', 'unit'), ('R', 'unit'), ('F', 'unit'), ('AOR', 'le1')], _sz([(0, 1), (1, 1), (1, 2)], [(0, 1), (1, 1), (1, 2), (2, 2)]),
    funcs=['transcription_velocity.precision_recall_f1_overlap', 'transcription_velocity.match_notes', 'transcription_velocity.validate'],
    mono=[('velocity_tolerance', [0, 1, 2])], exact_floats=False, skip=('C02', 'C15', 'C08'), timeout_s=1500)

# ---- tempo, key
add('tempo.detection', TEMPO.detection, b_tempo, [('P', 'unit'), ('one', 'binary'), ('both', 'binary')], _sz([(2, 2)], [(2, 2)]),
    funcs=['tempo.detection', 'tempo.validate', 'tempo.validate_tempi'], mono=[('tol', [0, 1, 2])], nested=[(2, 1)])
add('key.weighted_score', key_call, b_key, [('score', 'unit')], _sz([(10, 10)], [(len(KEY_STRINGS), len(KEY_STRINGS))]), funcs=['key.weighted_score', 'key.validate_key', 'key.split_key_string'])

# ---- alignment
add('alignment.absolute_error', ALIGN.absolute_error, b_alignment(), [('median', 'nonneg'), ('mean', 'nonneg')], _sz([(1,), (2,), (3,)], [(1,), (2,), (3,), (4,)]),
    funcs=['alignment.absolute_error', 'alignment.validate'], perfect=[0, 0], shift=shift_events)
add('alignment.percentage_correct', ALIGN.percentage_correct, b_alignment('window'), [('pc', 'unit')], _sz([(1,), (2,), (3,)], [(1,), (2,), (3,), (4,)]),
    funcs=['alignment.percentage_correct'], perfect=[1], mono=[('window', [0])], shift=shift_events)
add('alignment.percentage_correct_segments', ALIGN.percentage_correct_segments, b_alignment('pcs'), [('pcs', 'unit')], _sz([(2,), (3,)], [(2,), (3,), (4,)]),
    funcs=['alignment.percentage_correct_segments'], perfect=[1], shift=shift_events, timeout_s=1200)
add('alignment.percentage_correct_segments[duration]', ALIGN.percentage_correct_segments, b_alignment('duration'), [('pcs', 'unit')],
    _sz([(1,), (2,)], [(1,), (2,), (3,)]), funcs=['alignment.percentage_correct_segments'], perfect=[1], timeout_s=1200)

# ---- pattern
PAT_FUNCS = ['pattern.validate', 'pattern._occurrence_intersection', 'pattern._compute_score_matrix']
add('pattern.standard_FPR', PAT.standard_FPR, b_patterns((1, 1), 2), [('F', 'unit'), ('P', 'unit'), ('R', 'unit')],
    _sz([(1, 1), (2, 1), (0, 1)], [(1, 1), (2, 1), (0, 1), (1, 2), (2, 2)]), funcs=['pattern.standard_FPR'] + PAT_FUNCS,
    perfect=[1, 1, 1], swap=None, shift=shift_patterns)
add('pattern.establishment_FPR', PAT.establishment_FPR, b_patterns((1, 1), 1), [('F', 'unit'), ('P', 'unit'), ('R', 'unit')],
    _sz([(1, 1), (2, 1), (0, 1)], [(1, 1), (2, 1), (0, 1), (2, 2)]), funcs=['pattern.establishment_FPR'] + PAT_FUNCS,
    perfect=[1, 1, 1], swap=[0, 2, 1], shift=shift_patterns)
add('pattern.establishment_FPR[2 occ]', PAT.establishment_FPR, b_patterns((2, 1), 1), [('F', 'unit'), ('P', 'unit'), ('R', 'unit')],
    _sz([(1, 1)], [(1, 1), (1, 2)]), funcs=['pattern.establishment_FPR'] + PAT_FUNCS, swap=[0, 2, 1])
add('pattern.occurrence_FPR', PAT.occurrence_FPR, b_patterns((1, 1), 1, thres=True), [('F', 'unit'), ('P', 'unit'), ('R', 'unit')],
    _sz([(1, 1), (2, 1)], [(1, 1), (2, 1), (2, 2)]), funcs=['pattern.occurrence_FPR'] + PAT_FUNCS, perfect=[1, 1, 1], swap=[0, 2, 1],
    shift=shift_patterns)
add('pattern.occurrence_FPR[2 occ]', PAT.occurrence_FPR, b_patterns((2, 2), 1, thres=True), [('F', 'unit'), ('P', 'unit'), ('R', 'unit')],
    _sz([(1, 1)], [(1, 1)]), funcs=['pattern.occurrence_FPR'] + PAT_FUNCS, swap=[0, 2, 1], timeout_s=1500)
add('pattern.three_layer_FPR', PAT.three_layer_FPR, b_patterns((1, 1), 1), [('F', 'unit'), ('P', 'unit'), ('R', 'unit')],
    _sz([(1, 1), (2, 1)], [(1, 1), (2, 1), (2, 2)]), funcs=['pattern.three_layer_FPR'] + PAT_FUNCS, perfect=[1, 1, 1], swap=[0, 2, 1],
    shift=shift_patterns)
add('pattern.three_layer_FPR[2 notes]', PAT.three_layer_FPR, b_patterns((1, 1), 2), [('F', 'unit'), ('P', 'unit'), ('R', 'unit')],
    _sz([(1, 1)], [(1, 1), (2, 1)]), funcs=['pattern.three_layer_FPR'] + PAT_FUNCS, swap=[0, 2, 1], timeout_s=1500)
add('pattern.first_n_three_layer_P', PAT.first_n_three_layer_P, b_patterns((1, 1), 1), [('P', 'unit')],
    _sz([(1, 1), (1, 2)], [(1, 1), (1, 2), (2, 2)]), funcs=['pattern.first_n_three_layer_P'] + PAT_FUNCS, perfect=[1])
add('pattern.first_n_target_proportion_R', PAT.first_n_target_proportion_R, b_patterns((1, 1), 1), [('R', 'unit')],
    _sz([(1, 1), (1, 2)], [(1, 1), (1, 2), (2, 2)]), funcs=['pattern.first_n_target_proportion_R'] + PAT_FUNCS, perfect=[1])
# non-default n equal to (and one below) the number of patterns: the first-n clamp is exercised at its boundary (seed s16_C02)
add('pattern.first_n_three_layer_P[n=2]', PAT.first_n_three_layer_P, b_patterns((1, 1), 1, fixed_kw={'n': 2}), [('P', 'unit')],
    _sz([(2, 2)], [(2, 2), (3, 2), (2, 3)]), funcs=['pattern.first_n_three_layer_P'] + PAT_FUNCS, perfect=[1])
add('pattern.first_n_target_proportion_R[n=2]', PAT.first_n_target_proportion_R, b_patterns((1, 1), 1, fixed_kw={'n': 2}), [('R', 'unit')],
    _sz([(2, 2)], [(2, 2), (3, 2), (2, 3)]), funcs=['pattern.first_n_target_proportion_R'] + PAT_FUNCS, perfect=[1])

# ---- hierarchy
add('hierarchy.tmeasure', HIER.tmeasure, b_hier(2, 0.5, 2.0), UNIT3, _sz([(2, 2)], [(2, 2), (3, 2)]),
    funcs=['hierarchy.tmeasure', 'hierarchy._lca', 'hierarchy._gauc', 'hierarchy._compare_frame_rankings', 'hierarchy._count_inversions',
           'hierarchy.validate_hier_intervals'], swap=[1, 0, 2], exact_floats=False, timeout_s=1500)
add('hierarchy.tmeasure[transitive,window=1]', HIER.tmeasure, b_hier(2, 0.5, 2.0, window=1.0, transitive=True), UNIT3, _sz([(2, 2)], [(2, 2), (2, 3)]),
    funcs=['hierarchy.tmeasure'], swap=[1, 0, 2], exact_floats=False, timeout_s=1500)
add('hierarchy.lmeasure', HIER.lmeasure, b_hier(2, 0.5, 2.0, labels=True), UNIT3, _sz([(2, 2)], [(2, 2), (3, 2)]),
    funcs=['hierarchy.lmeasure', 'hierarchy._meet', 'hierarchy._gauc'], swap=[1, 0, 2], exact_floats=False, timeout_s=1500)

# ---- chord interval metrics
add('chord.weighted_accuracy', CHORD.weighted_accuracy, b_weighted_accuracy, [('score', 'unit')], _sz([(1,), (2,), (3,)], [(1,), (2,), (3,), (4,)]),
    funcs=['chord.weighted_accuracy'])
for _n, _f in (('overseg', CHORD.overseg), ('underseg', CHORD.underseg), ('seg', CHORD.seg)):
    add('chord.' + _n, _f, b_chord_seg, [(_n, 'unit')], _sz([(1, 1), (2, 1), (2, 2)], [(1, 1), (2, 1), (2, 2), (3, 2)]),
        funcs=['chord.' + _n, 'chord.directional_hamming_distance', 'util.validate_intervals'], perfect=[1])


def by_name(name):
    for s in SPECS:
        if s.name == name:
            return s
    raise KeyError(name)


def structure_specs(tier):
    """labelled-segmentation specs expanded over label patterns and frame sizes."""
    out = []
    q = tier == 'quick'
    configs = [(0.5, 2.0)] if q else [(0.5, 2.0), (0.25, 1.0)]
    sizes = [(1, 1), (2, 1), (2, 2)] if q else [(1, 1), (2, 1), (2, 2), (3, 2)]
    for nm, (fn, outs, perfect, swap) in STRUCT.items():
        for fs, maxT in configs:
            for (n, m) in sizes:
                pats_r = LABEL_PATTERNS[n] if not q else LABEL_PATTERNS[n][:2]
                pats_e = LABEL_PATTERNS[m] if not q else LABEL_PATTERNS[m][:1]
                for rl in pats_r:
                    for el in pats_e:
                        el2 = [x.upper() if i == 0 else x for i, x in enumerate(el)]   # case differs from the reference's
                        sp = Spec('%s[%s|%s,fs=%s]' % (nm, ''.join(rl), ''.join(el2), fs), fn,
                                  b_structure(fs, maxT, rl, el2), outs, {tier: [(n, m)]},
                                  funcs=[nm, 'segment.validate_structure', 'util.intervals_to_samples', 'util.index_labels', 'segment._contingency_matrix'],
                                  perfect=perfect, swap=swap, exact_floats=False, timeout_s=900)
                        sp.base = nm
                        out.append(sp)
        # empty sides: documented arity / scalar type for empty annotations
        for (n, m) in ((0, 1), (1, 0)):
            sp = Spec('%s[%s,fs=0.5]' % (nm, 'empty-ref' if n == 0 else 'empty-est'), fn,
                      b_structure(0.5, 2.0, ['a'] * n, ['A'] * m), outs, {tier: [(n, m)]}, funcs=[nm, 'segment.validate_structure'],
                      perfect=None, swap=None, exact_floats=False)
            sp.base = nm
            out.append(sp)
    return out
