#!/bin/sh
# Build the overlay interpreter used by ./check: a venv on top of /venv (which has
# mir_eval's own dependencies, editable install pointing at /repo) plus z3-solver
# from the offline wheelhouse.  Idempotent; runs offline.
set -e
cd "$(dirname "$0")"
V="$(pwd)/.venv"
if [ ! -x "$V/bin/python" ] || ! "$V/bin/python" -c "import z3, numpy, scipy, mir_eval" >/dev/null 2>&1; then
  rm -rf "$V"
  /venv/bin/python -m venv "$V"
  SP=$("$V/bin/python" -c "import sysconfig; print(sysconfig.get_paths()['purelib'])")
  printf "import site; site.addsitedir('/venv/lib/python3.12/site-packages')\n" > "$SP/verif_overlay.pth"
  PIP_NO_INDEX=1 "$V/bin/python" -m pip install -q --no-index --find-links /opt/veriftools/wheels z3-solver
  "$V/bin/python" -c "import z3, numpy, scipy, mir_eval; print('overlay ok: z3', z3.get_version_string())"
fi
