import argparse
import importlib
import os
import sys

from . import driver, harness


def main():
    ap = argparse.ArgumentParser()
    ap.add_argument('prop')
    ap.add_argument('--tier', default='quick')
    ap.add_argument('--replay')
    ap.add_argument('-v', action='store_true')
    ap.add_argument('--only', help='regex on job names')
    ap.add_argument('--list', action='store_true')
    a = ap.parse_args()
    tier = os.environ.get('VERIF_TIER') or a.tier
    seed = int(os.environ.get('VERIF_SEED', '0') or 0)
    pid = a.prop.upper()
    sys.path.insert(0, driver.VERIF)
    mod = importlib.import_module('props.%s' % pid.lower())
    if a.replay:
        jobs = mod.jobs('thorough') + mod.jobs('quick')
        sys.exit(harness.replay_file(a.replay, jobs))
    jobs = mod.jobs(tier)
    if a.only:
        import re
        jobs = [j for j in jobs if re.search(a.only, j.name)]
    if a.list:
        for j in jobs:
            print(j.name)
        return
    rc = driver.check_property(pid, tier, jobs, seed=seed, meta=getattr(mod, 'META', None), verbose=a.v)
    sys.exit(rc)


if __name__ == '__main__':
    main()
