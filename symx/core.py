"""symx core: dynamic symbolic execution of NumPy-based Python code.

Scalars are z3-backed (`SymNum` over Real, `SymBool` over Bool); arrays are genuine
``numpy.ndarray`` subclass instances of dtype object (`SymArray`) whose elements are
either symbolic scalars or concrete NumPy scalars.  Python control flow forks via
``__bool__``/``__index__`` which ask the current :class:`Ctx` to *decide*; the
function under analysis is re-executed per path (concolic DFS, see explore()).
"""
import math
import fractions
import time
import numpy as _np
import z3


class PathAbort(BaseException):
    """Current path is infeasible."""


class Unsupported(BaseException):
    """The engine cannot model an operation: the job becomes inconclusive."""


class Budget(BaseException):
    """Per-path step budget exhausted (possible non-termination)."""


# ---------------------------------------------------------------------------
# context / path exploration

class Ctx:
    cur = None

    def __init__(self, prefix=(), timeout_ms=20000, max_decisions=20000):
        self.solver = z3.Solver()
        self.solver.set("timeout", timeout_ms)
        self.timeout_ms = timeout_ms
        self._retrying = False
        self.prefix = list(prefix)
        self.pos = 0
        self.path = []
        self.alts = []
        self.n_checks = 0
        self.n_unsat = 0
        self.n_sat = 0
        self.solver_s = 0.0
        self.model = None
        self.fresh = 0
        self.n_decisions = 0
        self.max_decisions = max_decisions
        self.assumptions = []      # z3 exprs added as input preconditions (for reporting)
        self.uf_apps = {}          # name -> list of (arg expr, result expr) for transcendental axioms
        self.inputs = {}           # name -> z3 var (inputs to extract in witnesses)
        self.forked = 0
        self.decided = {}          # AST id -> outcome of decisions already taken on this path
        self._keep = []            # keeps decided ASTs alive so that ids are not recycled
        self.div_lemmas = {}       # id of a symbolic/symbolic quotient term -> redundant linear lemma, added on first use
        self._seen_ids = set()
        self.lits = []             # decision literals of this path (taken or implied), for margin witnesses

    def activate(self, e):
        """add the pending quotient lemmas of every division term occurring in e"""
        if not self.div_lemmas or not z3.is_expr(e):
            return
        stack = [e]
        seen = set()        # per call: AST ids of dead terms may be recycled
        while stack:
            t = stack.pop()
            i = t.get_id()
            if i in seen:
                continue
            seen.add(i)
            ent = self.div_lemmas.pop(i, None)
            if ent is not None:
                lem = ent[1]
                self._keep.append(ent[0])
                self.solver.add(lem)
                self.model = None
                stack.append(lem)
            if z3.is_app(t):
                stack.extend(t.children())

    # -- solver plumbing
    def add(self, *es):
        for e in es:
            self.solver.add(e)
        self.model = None

    def check(self, *extra):
        self.n_checks += 1
        t = time.time()
        r = self.solver.check(*extra)
        if r == z3.unknown and not self._retrying:
            # one retry with a four times longer limit (limits are wall-clock and the cores are shared)
            self._retrying = True
            try:
                self.solver.set("timeout", 4 * self.timeout_ms)
                r = self.solver.check(*extra)
            finally:
                self.solver.set("timeout", self.timeout_ms)
                self._retrying = False
        self.solver_s += time.time() - t
        if r == z3.unknown:
            raise Unsupported("solver unknown: %s" % self.solver.reason_unknown())
        if r == z3.sat:
            self.n_sat += 1
        else:
            self.n_unsat += 1
        return r == z3.sat

    def get_model(self):
        if self.model is None:
            if not self.check():
                raise PathAbort()
            self.model = self.solver.model()
        return self.model

    def decide(self, e):
        if isinstance(e, bool):
            return e
        if self.div_lemmas:
            self.activate(e)
        e = z3.simplify(e)
        if z3.is_true(e):
            return True
        if z3.is_false(e):
            return False
        hit = self.decided.get(e.get_id())
        if hit is not None:
            return hit
        self.n_decisions += 1
        if self.n_decisions > self.max_decisions:
            raise Budget("decision budget")
        self.activate(e)
        r = self._decide(e)
        self.decided[e.get_id()] = r
        self._keep.append(e)
        ne = z3.simplify(z3.Not(e))
        self.decided[ne.get_id()] = not r
        self._keep.append(ne)
        return r

    def _decide(self, e):
        if self.pos < len(self.prefix):
            taken = self.prefix[self.pos]
            self.pos += 1
            self.solver.add(e if taken else z3.Not(e))
            self.lits.append(e if taken else z3.Not(e))
            self.path.append(taken)
            self.model = None
            return taken
        m = self.get_model()
        mv = m.eval(e, model_completion=True)
        if not (z3.is_true(mv) or z3.is_false(mv)):
            if self.check(e):
                mv = z3.BoolVal(True)
            elif self.check(z3.Not(e)):
                mv = z3.BoolVal(False)
            else:
                raise PathAbort()
            self.model = None
        side = z3.is_true(mv)
        other = z3.Not(e) if side else e
        if self.check(other):
            self.alts.append(self.path + [not side])
            self.solver.add(e if side else z3.Not(e))
            self.forked += 1
            # cached model still satisfies the side taken
        else:
            # the other side is infeasible: e (or its negation) is implied; no need to add
            pass
        self.lits.append(e if side else z3.Not(e))
        self.path.append(side)
        self.pos += 1
        self.prefix.append(side)
        return side

    def concretize_int(self, e):
        """Enumerate feasible integer values of z3 Int expression e by forking."""
        e = z3.simplify(e)
        if z3.is_int_value(e):
            return e.as_long()
        while True:
            m = self.get_model()
            v = m.eval(e, model_completion=True)
            if not z3.is_int_value(v):
                raise Unsupported("cannot concretise int")
            v = v.as_long()
            if self.decide(e == v):
                return v
            self.model = None

    # -- inputs
    def real(self, name):
        v = z3.Real(name)
        self.inputs[name] = v
        return SymNum(v)

    def integer(self, name):
        v = z3.Int(name)
        self.inputs[name] = v
        return SymNum(z3.ToReal(v), isint=True)

    def gridnum(self, name, grid):
        """a real number on the lattice k/grid (k an Int variable)"""
        v = z3.Int(name)
        self.inputs[name] = v
        return SymNum(z3.ToReal(v) / grid, grid=grid)

    def boolean(self, name):
        v = z3.Bool(name)
        self.inputs[name] = v
        return SymBool(v)

    def fresh_real(self, name="t"):
        self.fresh += 1
        return z3.Real("%s!%d" % (name, self.fresh))

    def assume(self, c):
        e = _zb(c)
        self.assumptions.append(e)
        self.add(e)


def cur():
    c = Ctx.cur
    if c is None:
        raise RuntimeError("symbolic value used outside an exploration")
    return c


# ---------------------------------------------------------------------------
# lifting

def is_sym(x):
    return isinstance(x, (SymNum, SymBool))


def _nonfinite(x):
    return isinstance(x, (float, _np.floating)) and not math.isfinite(x)


class NonFiniteOperand(Exception):
    pass


def _z(x):
    if isinstance(x, SymNum):
        return x.e
    if isinstance(x, SymBool):
        return z3.If(x.e, z3.RealVal(1), z3.RealVal(0))
    if isinstance(x, (bool, _np.bool_)):
        return z3.RealVal(int(x))
    if isinstance(x, (int, _np.integer)):
        return z3.RealVal(int(x))
    if isinstance(x, (float, _np.floating)):
        if not math.isfinite(x):
            raise NonFiniteOperand(repr(x))
        return z3.RealVal(fractions.Fraction(float(x)))
    if isinstance(x, fractions.Fraction):
        return z3.RealVal(x)
    if isinstance(x, _np.ndarray) and x.ndim == 0:
        return _z(x.item())
    raise Unsupported("cannot lift %r to a number" % type(x))


def _zb(x):
    if isinstance(x, SymBool):
        return x.e
    if isinstance(x, (bool, _np.bool_)):
        return z3.BoolVal(bool(x))
    if isinstance(x, SymNum):
        return x.e != 0
    if isinstance(x, (int, float, _np.number)):
        return z3.BoolVal(bool(x))
    if z3.is_expr(x):
        return x
    if isinstance(x, _np.ndarray) and x.ndim == 0:
        return _zb(x.item())
    raise Unsupported("cannot lift %r to a bool" % type(x))


def _arr(o):
    return isinstance(o, _np.ndarray) and o.ndim > 0


# ---------------------------------------------------------------------------
# scalars

class SymBool:
    __slots__ = ("e",)

    def __init__(self, e):
        self.e = e

    def __bool__(self):
        return cur().decide(self.e)

    def __repr__(self):
        return "SymBool(%s)" % z3.simplify(self.e)

    def __and__(self, o):
        if _arr(o):
            return NotImplemented
        return SymBool(z3.And(self.e, _zb(o)))
    __rand__ = __and__

    def __or__(self, o):
        if _arr(o):
            return NotImplemented
        return SymBool(z3.Or(self.e, _zb(o)))
    __ror__ = __or__

    def __xor__(self, o):
        if _arr(o):
            return NotImplemented
        return SymBool(z3.Xor(self.e, _zb(o)))
    __rxor__ = __xor__

    def __invert__(self):
        return SymBool(z3.Not(self.e))

    def _n(self):
        return SymNum(z3.If(self.e, z3.RealVal(1), z3.RealVal(0)), isint=True)

    def __add__(self, o):
        if _arr(o):
            return NotImplemented
        return self._n() + o
    __radd__ = __add__

    def __sub__(self, o):
        if _arr(o):
            return NotImplemented
        return self._n() - o

    def __rsub__(self, o):
        if _arr(o):
            return NotImplemented
        return o - self._n()

    def __mul__(self, o):
        if _arr(o):
            return NotImplemented
        if isinstance(o, SymBool):
            return SymBool(z3.And(self.e, o.e))
        if isinstance(o, (bool, _np.bool_)):
            return self if o else False
        return self._n() * o
    __rmul__ = __mul__

    def __truediv__(self, o):
        return self._n() / o

    def __rtruediv__(self, o):
        return o / self._n()

    def __neg__(self):
        return -self._n()

    def __abs__(self):
        return self._n()

    def __eq__(self, o):
        if _arr(o):
            return NotImplemented
        if isinstance(o, (SymBool, bool, _np.bool_)):
            return SymBool(self.e == _zb(o))
        if o is None or isinstance(o, str):
            return False
        return self._n() == o

    def __ne__(self, o):
        if _arr(o):
            return NotImplemented
        r = self.__eq__(o)
        return (not r) if isinstance(r, bool) else ~r

    __hash__ = object.__hash__

    def __float__(self):
        return 1.0 if bool(self) else 0.0

    def __int__(self):
        return 1 if bool(self) else 0

    def __index__(self):
        return 1 if bool(self) else 0

    def __lt__(self, o):
        return self._n() < o

    def __le__(self, o):
        return self._n() <= o

    def __gt__(self, o):
        return self._n() > o

    def __ge__(self, o):
        return self._n() >= o


def _nf_cmp(op, a_is_self, nf):
    """comparison of a finite symbolic number with a non-finite float."""
    if math.isnan(nf):
        return op == 'ne'
    pos = nf > 0
    # self ? inf
    table = {'lt': pos, 'le': pos, 'gt': not pos, 'ge': not pos, 'eq': False, 'ne': True}
    return table[op]


class SymNum:
    """A finite real number known symbolically.

    ``py`` marks values with Python-scalar semantics (result of the rebound
    ``float()/int()/len()``): dividing two such values by zero raises
    ZeroDivisionError as CPython does; NumPy-scalar semantics otherwise
    (x/0 -> +-inf or nan, which are concrete floats).
    """
    __slots__ = ("e", "grid", "py")

    def __init__(self, e, isint=False, py=False, grid=None):
        self.e = e
        # grid = g means value*g is known to be an integer (g=1: an integer); None: unknown
        self.grid = 1 if isint else grid
        self.py = py

    @property
    def isint(self):
        return self.grid == 1

    def __repr__(self):
        return "Sym(%s)" % z3.simplify(self.e)

    def _mk(self, e, o, isint=None, mul=False):
        op = isinstance(o, (int, float, bool)) or (isinstance(o, SymNum) and o.py)
        if isint is not None:
            return SymNum(e, isint=isint, py=self.py and op)
        g = None
        og = _grid_of(o)
        if self.grid is not None and og is not None:
            if mul:
                g = self.grid * og
            else:
                g = self.grid * og // math.gcd(self.grid, og)
            if g > 10 ** 9:
                g = None
        return SymNum(e, py=self.py and op, grid=g)

    def __add__(self, o):
        if _arr(o):
            return NotImplemented
        if _nonfinite(o):
            return o
        if isinstance(o, str) or o is None:
            return NotImplemented
        return self._mk(self.e + _z(o), o)
    __radd__ = __add__

    def __sub__(self, o):
        if _arr(o):
            return NotImplemented
        if _nonfinite(o):
            return -o
        return self._mk(self.e - _z(o), o)

    def __rsub__(self, o):
        if _arr(o):
            return NotImplemented
        if _nonfinite(o):
            return o
        return self._mk(_z(o) - self.e, o)

    def __mul__(self, o):
        if _arr(o):
            return NotImplemented
        if _nonfinite(o):
            if math.isnan(o):
                return o
            if cur().decide(self.e > 0):
                return o
            if cur().decide(self.e < 0):
                return -o
            return type(o)('nan')
        if isinstance(o, (list, tuple, str)):
            return NotImplemented
        if isinstance(o, (int, float, _np.number)) and not isinstance(o, (bool, _np.bool_)) and o == 0:
            return o * 0.0 if isinstance(o, (float, _np.floating)) else o      # finite * 0 is a concrete zero
        return self._mk(_lin_mul(self.e, _z(o)), o, mul=True)
    __rmul__ = __mul__

    def _div(self, num, den, o):
        """num/den as z3 terms, with the zero-divisor branch decided."""
        if cur().decide(den == 0):
            pyboth = self.py and (isinstance(o, (int, float, bool)) and not isinstance(o, _np.generic) or (isinstance(o, SymNum) and o.py))
            if pyboth:
                raise ZeroDivisionError("division by zero")
            if cur().decide(num > 0):
                return _np.float64('inf')
            if cur().decide(num < 0):
                return _np.float64('-inf')
            return _np.float64('nan')
        q = num / den
        if not z3.is_rational_value(z3.simplify(den)) and not z3.is_rational_value(z3.simplify(num)):
            # redundant linear lemmas about a symbolic/symbolic quotient (help the solver avoid non-linear reasoning)
            c = cur()
            pos = z3.And((q <= 1) == (num <= den), (q >= 1) == (num >= den), (q >= 0) == (num >= 0), (q <= 0) == (num <= 0),
                         (q <= -1) == (num <= -den))
            neg = z3.And((q <= 1) == (num >= den), (q >= 1) == (num <= den), (q >= 0) == (num <= 0), (q <= 0) == (num >= 0),
                         (q <= -1) == (num >= -den))
            # lemmas are activated lazily, when q first occurs in a decision or an obligation (see Ctx.activate)
            c.div_lemmas[q.get_id()] = (q, z3.And(z3.Implies(den > 0, pos), z3.Implies(den < 0, neg)))
        return self._mk(q, o, isint=False)

    def __truediv__(self, o):
        if _arr(o):
            return NotImplemented
        if _nonfinite(o):
            return type(o)('nan') if math.isnan(o) else type(o)(0.0)
        return self._div(self.e, _z(o), o)

    def __rtruediv__(self, o):
        if _arr(o):
            return NotImplemented
        if _nonfinite(o):
            if math.isnan(o):
                return o
            if cur().decide(self.e >= 0):
                return o
            return -o
        return self._div(_z(o), self.e, o)

    def __floordiv__(self, o):
        if _arr(o):
            return NotImplemented
        d = _z(o)
        if cur().decide(d == 0):
            raise ZeroDivisionError("integer division or modulo by zero")
        q = self.e / d
        return self._mk(z3.ToReal(z3.ToInt(q)), o, isint=True)

    def __mod__(self, o):
        if _arr(o):
            return NotImplemented
        return sym_mod(self, o)

    def __rmod__(self, o):
        if _arr(o):
            return NotImplemented
        return sym_mod(o, self)

    def __neg__(self):
        return SymNum(-self.e, py=self.py, grid=self.grid)

    def __pos__(self):
        return self

    def __abs__(self):
        return SymNum(z3.If(self.e >= 0, self.e, -self.e), py=self.py, grid=self.grid)

    def __pow__(self, o):
        if _arr(o):
            return NotImplemented
        if isinstance(o, (int, float, _np.number)) and float(o) == int(o) and 0 <= int(o) <= 4:
            r = z3.RealVal(1)
            for _ in range(int(o)):
                r = r * self.e
            return SymNum(r, self.isint, self.py)
        if isinstance(o, (int, float, _np.number)) and float(o) == 0.5:
            return sym_sqrt(self)
        raise Unsupported("pow with exponent %r" % (o,))

    def __rpow__(self, o):
        if isinstance(o, (int, float, _np.number)) and float(o) == 2.0:
            return sym_exp2(self)
        raise Unsupported("rpow with base %r" % (o,))

    def _cmp(self, o, op):
        if _arr(o):
            return NotImplemented
        if _nonfinite(o):
            return _nf_cmp(op, True, float(o))
        if o is None or isinstance(o, (str, list, tuple, dict)):
            if op == 'eq':
                return False
            if op == 'ne':
                return True
            return NotImplemented
        zo = _z(o)
        e = self.e
        r = {'lt': e < zo, 'le': e <= zo, 'gt': e > zo, 'ge': e >= zo, 'eq': e == zo, 'ne': e != zo}[op]
        return SymBool(r)

    def __lt__(self, o):
        return self._cmp(o, 'lt')

    def __le__(self, o):
        return self._cmp(o, 'le')

    def __gt__(self, o):
        return self._cmp(o, 'gt')

    def __ge__(self, o):
        return self._cmp(o, 'ge')

    def __eq__(self, o):
        return self._cmp(o, 'eq')

    def __ne__(self, o):
        return self._cmp(o, 'ne')

    def __hash__(self):
        return 0

    def __bool__(self):
        return cur().decide(self.e != 0)

    def __float__(self):
        raise Unsupported("float() of a symbolic number (C double needed)")

    def __int__(self):
        return sym_int(self)

    def __index__(self):
        return cur().concretize_int(z3.ToInt(self.e))

    def __round__(self, n=0):
        return sym_round(self, n)

    def __format__(self, spec):
        return "<sym>"

    def __str__(self):
        return "<sym>"

    def floor(self):
        return SymNum(z3.ToReal(z3.ToInt(self.e)), isint=True, py=self.py)

    def ceil(self):
        return SymNum(-z3.ToReal(z3.ToInt(-self.e)), isint=True, py=self.py)

    # numpy-scalar-like attributes used by library code
    @property
    def ndim(self):
        return 0

    @property
    def shape(self):
        return ()

    @property
    def size(self):
        return 1

    @property
    def real(self):
        return self

    def item(self):
        return self

    def astype(self, dt):
        return _astype_scalar(self, dt)

    def copy(self):
        return self


def _const_ite(e):
    """e == If(c, a, b) with numeral a, b -> (c, a, b)"""
    if z3.is_app_of(e, z3.Z3_OP_ITE):
        c, a, b = e.children()
        if z3.is_rational_value(a) and z3.is_rational_value(b):
            return c, a, b
    return None


def _lin_mul(x, y):
    """x*y, keeping products with 0/1 indicators (and other two-valued terms) linear"""
    if z3.is_rational_value(x) or z3.is_rational_value(y):
        return x * y
    for u, v in ((x, y), (y, x)):
        ci = _const_ite(u)
        if ci is not None:
            c, a, b = ci
            return z3.If(c, z3.simplify(a * v), z3.simplify(b * v))
    return x * y


def _grid_of(o):
    if isinstance(o, SymNum):
        return o.grid
    if isinstance(o, (int, bool, _np.integer, _np.bool_, SymBool)):
        return 1
    if isinstance(o, (float, _np.floating)) and math.isfinite(o):
        d = fractions.Fraction(float(o)).denominator
        return d if d <= 2 ** 20 else None
    return None


def _grid_join(a, b):
    ga, gb = _grid_of(a), _grid_of(b)
    if ga is None or gb is None:
        return None
    return ga * gb // math.gcd(ga, gb)


def smax(a, b):
    za, zb = _z(a), _z(b)
    return SymNum(z3.If(za >= zb, za, zb), grid=_grid_join(a, b))


def smin(a, b):
    za, zb = _z(a), _z(b)
    return SymNum(z3.If(za <= zb, za, zb), grid=_grid_join(a, b))


def _isint(x):
    return isinstance(x, (int, bool, _np.integer, _np.bool_, SymBool)) or (isinstance(x, SymNum) and x.isint)


def sym_int(x):
    """int(x): truncation toward zero, enumerated by forking."""
    if isinstance(x, SymNum):
        if x.isint:
            return cur().concretize_int(z3.ToInt(x.e))
        neg = cur().decide(x.e < 0)
        t = -z3.ToInt(-x.e) if neg else z3.ToInt(x.e)
        return cur().concretize_int(t)
    if isinstance(x, SymBool):
        return int(bool(x))
    return int(x)


def sym_float(x=0.0):
    """rebound builtin ``float``: keeps symbolic values symbolic, tags Python-scalar semantics."""
    if isinstance(x, SymNum):
        return SymNum(x.e, py=True, grid=x.grid)
    if isinstance(x, SymBool):
        n = x._n()
        return SymNum(n.e, py=True, grid=1)
    if isinstance(x, _np.ndarray) and x.dtype == object and x.size == 1:
        return sym_float(x.reshape(-1)[0])
    return float(x)


def sym_round(x, n=0):
    if isinstance(x, SymNum):
        sc = 10 ** int(n or 0)
        if x.grid is not None and sc % x.grid == 0:
            return x          # value*sc is an integer: rounding to n decimals is the identity
        if int(n or 0) >= 6:
            # fine rounding of a value that is not on a lattice: over-approximated by an uninterpreted function with
            # |round(x) - x| <= 0.5 * 10^-n and monotonicity (sound for proofs; sat results are confirmed by replay only)
            c = cur()
            f = _uf('round%d' % int(n))
            arg = z3.simplify(x.e)
            apps = c.uf_apps.setdefault('round%d' % int(n), [])
            for a0, r0 in apps:
                if a0.eq(arg):
                    return SymNum(r0, py=x.py, grid=sc)
            res = f(arg)
            half = z3.RealVal(fractions.Fraction(1, 2 * sc))
            ax = [res - arg <= half, arg - res <= half]
            for a0, r0 in apps:
                ax.append(z3.Implies(arg <= a0, res <= r0))
                ax.append(z3.Implies(arg >= a0, res >= r0))
            apps.append((arg, res))
            c.add(*ax)
            return SymNum(res, py=x.py, grid=sc)
        # round-half-even differs from floor(x+1/2) only on exact ties; ties are forked out
        y = x.e * sc
        k = z3.ToInt(y)
        fl = z3.ToReal(k)
        # round half to even: exact ties go to the even neighbour (no enumeration of k)
        up = z3.ToReal(z3.ToInt(y + z3.RealVal("1/2")))
        tie_val = z3.If(k % 2 == 0, fl, fl + 1)
        r = z3.If(y - fl == z3.RealVal("1/2"), tie_val, up)
        res = r / sc
        # redundant lemmas (rounding is monotone): z3 does not find the integrality argument behind
        # "x <= y  =>  round(x) <= round(y)" on unbounded integers by itself
        c = cur()
        apps = c.__dict__.setdefault('_round_apps', {}).setdefault(sc, [])
        arg = x.e
        if not any(a0.eq(arg) for a0, _ in apps):
            for a0, r0 in apps[-8:]:
                c.add(z3.Implies(arg <= a0, res <= r0), z3.Implies(arg >= a0, res >= r0))
            apps.append((arg, res))
        return SymNum(res, py=x.py, grid=sc)
    return round(x, n) if n else round(x)


def sym_mod(a, b):
    if is_sym(a) or is_sym(b):
        za, zb = _z(a), _z(b)
        if is_sym(b):
            if cur().decide(zb == 0):
                raise ZeroDivisionError("modulo by zero")
            if not cur().decide(zb > 0):
                raise Unsupported("mod by negative symbolic")
        elif float(b) <= 0:
            raise Unsupported("mod by non-positive")
        q = z3.ToReal(z3.ToInt(za / zb))
        return SymNum(za - zb * q, isint=_isint(a) and _isint(b))
    return a % b


# -- transcendental functions: uninterpreted with instantiated axioms

_UFS = {}


def _uf(name):
    f = _UFS.get(name)
    if f is None:
        f = z3.Function(name, z3.RealSort(), z3.RealSort())
        _UFS[name] = f
    return f


_MONO = {'log2': 1, 'log': 1, 'log10': 1, 'exp': 1, 'sqrt': 1, 'exp2': 1}
_ANCHORS = {
    'log2': [(fractions.Fraction(1), 0.0), (fractions.Fraction(2), 1.0), (fractions.Fraction(440), math.log2(440)),
             (fractions.Fraction(1, 2), -1.0), (fractions.Fraction(4), 2.0), (fractions.Fraction(10), math.log2(10))],
    'log': [(fractions.Fraction(1), 0.0)],
    'log10': [(fractions.Fraction(1), 0.0), (fractions.Fraction(10), 1.0)],
    'exp': [(fractions.Fraction(0), 1.0)],
    'exp2': [(fractions.Fraction(0), 1.0), (fractions.Fraction(1), 2.0), (fractions.Fraction(-1), 0.5)],
    'sqrt': [(fractions.Fraction(0), 0.0), (fractions.Fraction(1), 1.0), (fractions.Fraction(4), 2.0)],
}
_REAL = {'log2': math.log2, 'log': math.log, 'log10': math.log10, 'exp': math.exp, 'sqrt': math.sqrt,
         'exp2': lambda v: 2.0 ** v}


def uf_apply(name, x):
    """Apply transcendental `name` to x (SymNum or concrete)."""
    if not is_sym(x):
        return _REAL[name](float(x))
    c = cur()
    f = _uf(name)
    arg = z3.simplify(_z(x))
    if z3.is_rational_value(arg):
        v = fractions.Fraction(arg.numerator_as_long(), arg.denominator_as_long())
        return _REAL[name](float(v))
    apps = c.uf_apps.setdefault(name, [])
    for a0, r0 in apps:
        if a0.eq(arg):
            return SymNum(r0)
    res = f(arg)
    ax = []
    # domain facts
    if name in ('exp', 'exp2'):
        ax.append(res > 0)
        ax.append(z3.Implies(arg <= 0, res <= 1))
        ax.append(z3.Implies(arg >= 0, res >= 1))
        ax.append(z3.Implies(arg == 0, res == 1))
        if name == 'exp':
            # anchor bounds (checked numerically below at import time)
            for xa, ub in _EXP_UPPER:
                ax.append(z3.Implies(arg <= z3.RealVal(xa), res <= z3.RealVal(ub)))
            for xa, lb in _EXP_LOWER:
                ax.append(z3.Implies(arg >= z3.RealVal(xa), res >= z3.RealVal(lb)))
    elif name == 'sqrt':
        ax.append(res >= 0)
        ax.append(res * res == arg)
    else:  # logs
        ax.append(z3.Implies(arg > 1, res > 0))
        ax.append(z3.Implies(arg < 1, res < 0))
        ax.append(z3.Implies(arg == 1, res == 0))
    # monotone & injective w.r.t. earlier applications and anchors
    for a0, r0 in apps:
        ax.append(z3.Implies(arg < a0, res < r0))
        ax.append(z3.Implies(arg > a0, res > r0))
        ax.append(z3.Implies(arg == a0, res == r0))
    for xa, ya in _ANCHORS.get(name, ()):
        xa_z = z3.RealVal(xa)
        ya_z = z3.RealVal(fractions.Fraction(ya))
        ax.append(z3.Implies(arg < xa_z, res < ya_z))
        ax.append(z3.Implies(arg > xa_z, res > ya_z))
        ax.append(z3.Implies(arg == xa_z, res == ya_z))
    apps.append((arg, res))
    c.add(*ax)
    return SymNum(res)


_EXP_UPPER = [(fractions.Fraction(-1, 2), fractions.Fraction(607, 1000)), (fractions.Fraction(-1), fractions.Fraction(368, 1000)),
              (fractions.Fraction(-2), fractions.Fraction(1354, 10000)), (fractions.Fraction(-4), fractions.Fraction(184, 10000)),
              (fractions.Fraction(-8), fractions.Fraction(4, 10000))]
_EXP_LOWER = [(fractions.Fraction(-1, 2), fractions.Fraction(606, 1000)), (fractions.Fraction(-1, 8), fractions.Fraction(882, 1000)),
              (fractions.Fraction(-1, 32), fractions.Fraction(969, 1000))]
for _xa, _ub in _EXP_UPPER:
    assert math.exp(float(_xa)) < float(_ub)
for _xa, _lb in _EXP_LOWER:
    assert math.exp(float(_xa)) > float(_lb)


def sym_sqrt(x):
    return uf_apply('sqrt', x)


def sym_exp2(x):
    return uf_apply('exp2', x)


class LogNum(SymNum):
    """A positive number f = 2**l represented by its base-2 logarithm l (a Real term).

    Used for frequencies: log2(f*c) rewrites to l + log2(c) and order comparisons
    with positive constants / other LogNums are done on the exponents, so that no
    uninterpreted application is needed; ``e`` (the value itself) is created lazily
    through the exp2 UF only when arithmetic on f is requested.
    """
    __slots__ = ("l", "_e")

    def __init__(self, l, e=None):
        self.l = l
        self._e = e
        self.grid = None
        self.py = False

    @property
    def e(self):
        if self._e is None:
            self._e = sym_exp2(SymNum(self.l)).e
        return self._e

    def _cmp(self, o, op):
        if isinstance(o, LogNum):
            lo = o.l
        elif isinstance(o, (int, float, _np.number)) and not isinstance(o, (bool, _np.bool_)) and math.isfinite(o):
            if float(o) <= 0:
                return {'lt': False, 'le': False, 'gt': True, 'ge': True, 'eq': False, 'ne': True}[op]
            lo = z3.RealVal(fractions.Fraction(math.log2(float(o))))
        else:
            return SymNum._cmp(self, o, op)
        l = self.l
        return SymBool({'lt': l < lo, 'le': l <= lo, 'gt': l > lo, 'ge': l >= lo, 'eq': l == lo, 'ne': l != lo}[op])

    def __mul__(self, o):
        if isinstance(o, LogNum):
            return LogNum(self.l + o.l, None)
        if isinstance(o, (int, float, _np.number)) and not isinstance(o, (bool, _np.bool_)) and float(o) > 0:
            return LogNum(self.l + z3.RealVal(fractions.Fraction(math.log2(float(o)))), None)
        return SymNum.__mul__(self, o)
    __rmul__ = __mul__

    def __truediv__(self, o):
        if isinstance(o, (int, float, _np.number)) and not isinstance(o, (bool, _np.bool_)) and float(o) > 0:
            return LogNum(self.l - z3.RealVal(fractions.Fraction(math.log2(float(o)))), None)
        if isinstance(o, LogNum):
            return LogNum(self.l - o.l, None)
        return SymNum.__truediv__(self, o)

    def __abs__(self):
        return self

    def __pos__(self):
        return self


class NegLogNum(SymNum):
    """-f for a log-domain positive number f (a negated melody frequency)"""
    __slots__ = ("pos",)

    def __init__(self, pos):
        self.pos = pos
        self.grid = None
        self.py = False

    @property
    def e(self):
        return -self.pos.e

    def __neg__(self):
        return self.pos

    def __abs__(self):
        return self.pos

    def _cmp(self, o, op):
        if isinstance(o, (int, float, _np.number)) and not isinstance(o, (bool, _np.bool_)) and math.isfinite(o):
            if float(o) >= 0:
                return {'lt': True, 'le': True, 'gt': False, 'ge': False, 'eq': False, 'ne': True}[op]
            return self.pos._cmp(-float(o), _SWAP[op])
        return SymNum._cmp(self, o, op)


LogNum.__neg__ = lambda self: NegLogNum(self)


def sym_log2(x):
    if isinstance(x, LogNum):
        return SymNum(x.l)
    return uf_apply('log2', x)


# ---------------------------------------------------------------------------
# element-wise functions for ufunc dispatch

def _b_add(a, b):
    if is_sym(b) and not is_sym(a):
        return b.__radd__(a)
    return a + b


def _b_sub(a, b):
    if is_sym(b) and not is_sym(a):
        return b.__rsub__(a)
    return a - b


def _b_mul(a, b):
    if is_sym(b) and not is_sym(a):
        return b.__rmul__(a)
    return a * b


def _b_div(a, b):
    if is_sym(b) and not is_sym(a):
        return b.__rtruediv__(a)
    if not is_sym(a) and not is_sym(b):
        with _np.errstate(all='ignore'):
            return _np.true_divide(a, b)
    return a / b


def _b_floordiv(a, b):
    if is_sym(b) and not is_sym(a):
        return SymNum(_z(a)) // b
    if not is_sym(a) and not is_sym(b):
        return _np.floor_divide(a, b)
    return a // b


_SWAP = {'lt': 'gt', 'le': 'ge', 'gt': 'lt', 'ge': 'le', 'eq': 'eq', 'ne': 'ne'}


def _b_cmp(op):
    def f(a, b):
        if is_sym(a):
            if isinstance(a, SymBool):
                a2 = a if op in ('eq', 'ne') else a._n()
                return getattr(a2, '__%s__' % op)(b)
            return a._cmp(b, op)
        if is_sym(b):
            if isinstance(b, SymBool):
                b2 = b if op in ('eq', 'ne') else b._n()
                return getattr(b2, '__%s__' % _SWAP[op])(a)
            return b._cmp(a, _SWAP[op])
        import operator
        return getattr(operator, op)(a, b)
    return f


def _land(a, b):
    if is_sym(a) or is_sym(b):
        return SymBool(z3.And(_zb(a), _zb(b)))
    return _np.bool_(bool(a) and bool(b))


def _lor(a, b):
    if is_sym(a) or is_sym(b):
        return SymBool(z3.Or(_zb(a), _zb(b)))
    return _np.bool_(bool(a) or bool(b))


def _lxor(a, b):
    if is_sym(a) or is_sym(b):
        return SymBool(z3.Xor(_zb(a), _zb(b)))
    return _np.bool_(bool(a) != bool(b))


def _lnot(a):
    if is_sym(a):
        return SymBool(z3.Not(_zb(a)))
    return _np.bool_(not a)


def _isboolish(a):
    return isinstance(a, (SymBool, bool, _np.bool_))


def _max2(a, b):
    if is_sym(a) or is_sym(b):
        if _isboolish(a) and _isboolish(b):
            return SymBool(z3.Or(_zb(a), _zb(b)))
        if _nonfinite(a) or _nonfinite(b):
            nf, s = (a, b) if _nonfinite(a) else (b, a)
            if math.isnan(nf):
                return nf
            return nf if nf > 0 else s
        return smax(a, b)
    return _np.maximum(a, b)


def _min2(a, b):
    if is_sym(a) or is_sym(b):
        if _isboolish(a) and _isboolish(b):
            return SymBool(z3.And(_zb(a), _zb(b)))
        if _nonfinite(a) or _nonfinite(b):
            nf, s = (a, b) if _nonfinite(a) else (b, a)
            if math.isnan(nf):
                return nf
            return nf if nf < 0 else s
        return smin(a, b)
    return _np.minimum(a, b)


def _floor(a):
    if isinstance(a, SymNum):
        return a.floor()
    if isinstance(a, SymBool):
        return a._n()
    return _np.floor(a)


def _ceil(a):
    if isinstance(a, SymNum):
        return a.ceil()
    if isinstance(a, SymBool):
        return a._n()
    return _np.ceil(a)


def _mod(a, b):
    if is_sym(a) or is_sym(b):
        return sym_mod(a, b)
    return _np.mod(a, b)


def _fmod(a, b):
    """C fmod: a - b*trunc(a/b) (the result carries the sign of a); concrete non-zero divisor only"""
    if is_sym(b):
        raise Unsupported("fmod by a symbolic divisor")
    if is_sym(a):
        bb = abs(float(b))
        if bb == 0 or not math.isfinite(bb):
            raise Unsupported("fmod by %r" % (b,))
        za = _z(a)
        zb = z3.RealVal(fractions.Fraction(bb))
        q = z3.If(za >= 0, z3.ToReal(z3.ToInt(za / zb)), -z3.ToReal(z3.ToInt(-za / zb)))
        return SymNum(za - zb * q)
    return _np.fmod(a, b)


def _trunc(a):
    if isinstance(a, SymNum):
        return SymNum(z3.If(a.e >= 0, z3.ToReal(z3.ToInt(a.e)), -z3.ToReal(z3.ToInt(-a.e))), isint=True)
    return _np.trunc(a)


def _sign(a):
    if isinstance(a, SymNum):
        return SymNum(z3.If(a.e > 0, z3.RealVal(1), z3.If(a.e < 0, z3.RealVal(-1), z3.RealVal(0))), isint=True)
    return _np.sign(a)


def _tr(name):
    def f(a):
        if isinstance(a, SymBool):
            a = a._n()
        if isinstance(a, SymNum):
            if name == 'log2':
                return sym_log2(a)
            c = cur()
            if name in ('log', 'log10', 'log2'):
                if c.decide(a.e <= 0):
                    if c.decide(a.e == 0):
                        return _np.float64('-inf')
                    return _np.float64('nan')
            if name == 'sqrt':
                if c.decide(a.e < 0):
                    return _np.float64('nan')
            return uf_apply(name, a)
        with _np.errstate(all='ignore'):
            return getattr(_np, name)(a)
    return f


def _isnan(a):
    if is_sym(a):
        return _np.bool_(False)
    return _np.isnan(a)


def _isfinite(a):
    if is_sym(a):
        return _np.bool_(True)
    return _np.isfinite(a)


def _isinf(a):
    if is_sym(a):
        return _np.bool_(False)
    return _np.isinf(a)


def _square(a):
    return _b_mul(a, a)


def _power(a, b):
    if is_sym(a):
        if isinstance(a, SymBool):
            a = a._n()
        return a.__pow__(b)
    if is_sym(b):
        if isinstance(b, SymBool):
            b = b._n()
        return b.__rpow__(a)
    return _np.power(a, b)


def _rint(a):
    if isinstance(a, SymNum):
        return sym_round(a, 0)
    return _np.rint(a)


_UF = {
    'add': _b_add, 'subtract': _b_sub, 'multiply': _b_mul, 'divide': _b_div, 'true_divide': _b_div,
    'floor_divide': _b_floordiv,
    'negative': lambda a: -a, 'positive': lambda a: a, 'absolute': lambda a: abs(a), 'fabs': lambda a: abs(a),
    'less': _b_cmp('lt'), 'less_equal': _b_cmp('le'), 'greater': _b_cmp('gt'), 'greater_equal': _b_cmp('ge'),
    'equal': _b_cmp('eq'), 'not_equal': _b_cmp('ne'),
    'logical_and': _land, 'logical_or': _lor, 'logical_not': _lnot, 'logical_xor': _lxor,
    'bitwise_and': _land, 'bitwise_or': _lor, 'invert': _lnot, 'bitwise_xor': _lxor,
    'maximum': _max2, 'minimum': _min2, 'fmax': _max2, 'fmin': _min2,
    'floor': _floor, 'ceil': _ceil, 'remainder': _mod, 'mod': _mod, 'fmod': _fmod, 'trunc': _trunc, 'sign': _sign,
    'log2': _tr('log2'), 'log': _tr('log'), 'log10': _tr('log10'), 'exp': _tr('exp'), 'sqrt': _tr('sqrt'),
    'isnan': _isnan, 'isfinite': _isfinite, 'isinf': _isinf, 'square': _square, 'power': _power,
    'rint': _rint,
}

_IDENT = {'add': 0, 'multiply': 1, 'logical_or': False, 'logical_and': True,
          'bitwise_or': False, 'bitwise_and': True}


# ---------------------------------------------------------------------------
# arrays

def _plain(x):
    if isinstance(x, SymArray):
        return x.view(_np.ndarray)
    return x


def _objarr(x):
    """Any array-like -> plain object ndarray whose concrete elements are numpy scalars."""
    if isinstance(x, _np.ndarray):
        if x.dtype == object:
            return x.view(_np.ndarray)
        r = _np.empty(x.shape, dtype=object)
        if x.size:
            flat = r.reshape(-1)
            src = x.reshape(-1)
            for i in range(src.size):
                flat[i] = src[i]
        return r
    if is_sym(x):
        r = _np.empty((), dtype=object)
        r[()] = x
        return r
    if isinstance(x, (list, tuple)):
        if len(x) == 0:
            return _np.empty((0,), dtype=object)
        parts = [_objarr(y) for y in x]
        shp = parts[0].shape
        if any(p.shape != shp for p in parts):
            raise ValueError("setting an array element with a sequence. The requested array has an inhomogeneous shape")
        r = _np.empty((len(parts),) + shp, dtype=object)
        for i, p in enumerate(parts):
            if p.ndim == 0:
                r[i] = p[()]
            else:
                r[i] = p
        return r
    if isinstance(x, (bool, int, float)):
        r = _np.empty((), dtype=object)
        r[()] = _np.asarray(x)[()]
        return r
    if isinstance(x, _np.generic):
        r = _np.empty((), dtype=object)
        r[()] = x
        return r
    if hasattr(x, '__iter__') and not isinstance(x, (str, bytes, dict)):
        return _objarr(list(x))
    r = _np.empty((), dtype=object)
    r[()] = x
    return r


def _has_sym(x):
    if is_sym(x):
        return True
    if isinstance(x, SymArray):
        return True
    if isinstance(x, (list, tuple)):
        return any(_has_sym(y) for y in x)
    return False


def _wrap(x):
    if isinstance(x, SymArray):
        return x
    if isinstance(x, _np.ndarray):
        if x.ndim == 0:
            return x.item() if x.dtype == object else x[()]
        if x.dtype != object:
            dt = x.dtype
            x = _objarr(x).view(SymArray)
            if x.size == 0:
                x._edt = dt
            return x
        return x.view(SymArray)
    return x


def array(vals):
    return _objarr(vals).view(SymArray)


def _all_concrete(a):
    for v in _plain(a).flat:
        if is_sym(v):
            return False
    return True


def demote(a):
    """Fully concrete SymArray -> native dtype ndarray (boundary adapter)."""
    if isinstance(a, SymArray):
        p = a.view(_np.ndarray)
        for v in p.flat:
            if is_sym(v):
                raise Unsupported("symbolic element at a concrete-only boundary")
        if p.size == 0:
            return _np.zeros(p.shape, dtype=float)
        return _np.array(p.tolist())
    if isinstance(a, (list, tuple)):
        return type(a)(demote(x) for x in a)
    if is_sym(a):
        raise Unsupported("symbolic scalar at a concrete-only boundary")
    return a


def _is_concrete(x):
    if is_sym(x):
        return False
    if isinstance(x, SymArray):
        for v in x.view(_np.ndarray).flat:
            if is_sym(v) or isinstance(v, _np.ndarray):
                return False
        return True
    if isinstance(x, (list, tuple)):
        return all(_is_concrete(y) for y in x)
    return True


def _demote1(x):
    if isinstance(x, SymArray):
        p = x.view(_np.ndarray)
        if p.size == 0:
            return _np.zeros(p.shape, dtype=x._edt or float)
        return _np.array(p.tolist()).reshape(p.shape)
    if isinstance(x, (list, tuple)):
        return type(x)(_demote1(y) for y in x)
    return x


def _conc_key(key):
    if isinstance(key, tuple):
        return tuple(_conc_key(k) for k in key)
    if isinstance(key, SymArray):
        kk = key.view(_np.ndarray)
        if key.size == 0:
            return _np.zeros(key.shape, dtype=_np.intp)
        first = kk.reshape(-1)[0]
        if all(_isboolish(k) for k in kk.flat):
            return _np.array([bool(k) for k in kk.flat], dtype=bool).reshape(key.shape)
        out = []
        for k in kk.flat:
            if isinstance(k, SymNum):
                out.append(cur().concretize_int(z3.ToInt(k.e)))
            elif isinstance(k, SymBool):
                out.append(int(bool(k)))
            else:
                out.append(int(k))
        return _np.array(out, dtype=_np.intp).reshape(key.shape)
    if isinstance(key, SymBool):
        return bool(key)
    if isinstance(key, SymNum):
        return cur().concretize_int(z3.ToInt(key.e))
    if isinstance(key, slice):
        def cv(v):
            return _conc_key(v) if is_sym(v) else v
        return slice(cv(key.start), cv(key.stop), cv(key.step))
    if isinstance(key, list) and any(is_sym(k) for k in key):
        return [_conc_key(k) for k in key]
    return key


def _astype_scalar(x, dtype):
    kind = _dtype_kind(dtype)
    if kind == 'f':
        if isinstance(x, SymBool):
            return x._n()
        if isinstance(x, SymNum):
            return SymNum(x.e, py=False, grid=x.grid)
        return _np.dtype(dtype).type(x) if not callable(dtype) or isinstance(dtype, type) else _np.float64(x)
    if kind == 'i':
        if is_sym(x):
            return _np.int64(sym_int(x))
        return _np.int64(x)
    if kind == 'b':
        if isinstance(x, SymBool):
            return x
        if isinstance(x, SymNum):
            return SymBool(x.e != 0)
        return _np.bool_(x)
    if kind == 'O':
        return x
    raise Unsupported("astype %r" % (dtype,))


def _dtype_kind(dtype):
    if dtype is None:
        return 'O'
    if dtype is sym_float or dtype is float:
        return 'f'
    if dtype is int or dtype is sym_int:
        return 'i'
    if dtype is bool:
        return 'b'
    if dtype is object:
        return 'O'
    try:
        k = _np.dtype(dtype).kind
    except TypeError:
        raise Unsupported("dtype %r" % (dtype,))
    if k in 'iu':
        return 'i'
    if k in 'fb':
        return k
    if k == 'O':
        return 'O'
    if k == 'c':
        raise Unsupported("complex dtype")
    return k


class SymArray(_np.ndarray):
    """Object-dtype ndarray holding symbolic and/or NumPy-scalar elements."""

    _edt = None      # native dtype remembered for arrays created empty (an empty object array has lost it)

    def __array_finalize__(self, obj):
        if obj is not None and self.size == 0:
            self._edt = getattr(obj, '_edt', None)

    def __array_ufunc__(self, ufunc, method, *inputs, out=None, **kw):
        if out is None and all(_is_concrete(i) for i in inputs):
            # concrete fast path: real NumPy on native dtypes, result promoted back into the closed world
            with _np.errstate(all='ignore'):
                r = getattr(ufunc, method)(*[_demote1(i) for i in inputs], **kw)
            return _promote(r)
        f = _UF.get(ufunc.__name__)
        if f is None:
            raise Unsupported("ufunc %s" % ufunc.__name__)
        ins = [_objarr(i) for i in inputs]
        pf = _np.frompyfunc(f, ufunc.nin, 1)
        kw.pop('dtype', None)
        kw.pop('casting', None)
        if method == '__call__':
            if kw.pop('where', True) is not True:
                raise Unsupported("ufunc where=")
            r = pf(*ins)
        elif method == 'outer':
            r = pf.outer(*ins)
        elif method == 'reduce':
            axis = kw.pop('axis', 0)
            keepdims = kw.pop('keepdims', False)
            initial = kw.pop('initial', _np._NoValue)
            kw.pop('where', None)
            a = ins[0]
            if axis is None:
                a = a.reshape(-1)
                axis = 0
            if isinstance(axis, tuple):
                # reduce over several axes one at a time (an empty tuple reduces nothing)
                r = a.view(SymArray)
                for ax in sorted((x % a.ndim for x in axis), reverse=True):
                    r = self.__array_ufunc__(ufunc, 'reduce', r, axis=ax)
                return r if not keepdims else _wrap(_np.expand_dims(_objarr(r), tuple(sorted(x % a.ndim for x in axis))))
            if a.ndim == 0:
                r = a
            elif a.shape[axis] == 0 or initial is not _np._NoValue:
                ident = initial if initial is not _np._NoValue else _IDENT.get(ufunc.__name__)
                if ident is None:
                    raise ValueError("zero-size array to reduction operation %s which has no identity" % ufunc.__name__)
                ident = _np.asarray(ident)[()]
                r = pf.reduce(a, axis=axis, keepdims=keepdims, initial=ident)
            else:
                r = pf.reduce(a, axis=axis, keepdims=keepdims)
        elif method == 'accumulate':
            axis = kw.pop('axis', 0)
            r = pf.accumulate(ins[0], axis=axis)
        elif method == 'at':
            raise Unsupported("ufunc.at")
        else:
            raise Unsupported("ufunc method %s" % method)
        if out is not None:
            o = out[0]
            _plain(o)[...] = r
            return o
        return _wrap(r) if isinstance(r, _np.ndarray) else r

    def __array_function__(self, func, types, args, kwargs):
        h = _AF.get(func)
        if h is not None:
            return h(*args, **kwargs)
        r = super().__array_function__(func, types, args, kwargs)
        return r

    def __getitem__(self, key):
        key = _conc_key(key)
        r = _np.ndarray.__getitem__(self, key)
        return r

    def __setitem__(self, key, val):
        if isinstance(key, SymArray) and key.size and any(isinstance(k, SymBool) for k in key.flat):
            kk = key.view(_np.ndarray)
            flat = self.view(_np.ndarray)
            if kk.shape != flat.shape[:kk.ndim]:
                raise Unsupported("masked assignment with mismatched mask shape")
            if isinstance(val, _np.ndarray) and val.ndim > 0:
                # shape of the right-hand side depends on the mask: decide the mask (fork) and assign normally
                _np.ndarray.__setitem__(self, _conc_key(key), _objarr(val))
                return
            for idx in _np.ndindex(kk.shape):
                k = kk[idx]
                old = flat[idx]
                if isinstance(old, _np.ndarray):
                    for j in _np.ndindex(old.shape):
                        old[j] = _ite(k, val, old[j])
                else:
                    flat[idx] = _ite(k, val, old)
            return
        k1 = key[0] if isinstance(key, tuple) and len(key) == 1 else key
        if (self.ndim == 1 and isinstance(k1, SymArray) and k1.ndim == 1 and not (isinstance(val, _np.ndarray) and val.ndim > 0)
                and any(isinstance(k, SymNum) for k in k1.view(_np.ndarray).flat)):
            # a[symbolic integer indices] = scalar: merge instead of enumerating the index values
            ks = [_z(k) for k in k1.view(_np.ndarray).flat]
            n = self.shape[0]
            if cur().decide(z3.And(*[z3.And(k >= 0, k < n) for k in ks])):
                flat = self.view(_np.ndarray)
                for p in range(n):
                    hit = SymBool(z3.Or(*[k == p for k in ks]))
                    flat[p] = _ite(hit, val, flat[p])
                return
        if isinstance(val, _np.ndarray) and val.dtype != object:
            val = _objarr(val)
        elif isinstance(val, (bool, int, float)):
            val = _np.asarray(val)[()]
        _np.ndarray.__setitem__(self, _conc_key(key), _plain(val))

    def __bool__(self):
        if self.size == 1:
            return bool(self.view(_np.ndarray).reshape(-1)[0])
        raise ValueError("The truth value of an array with more than one element is ambiguous.")

    def __float__(self):
        if self.size == 1:
            return sym_float(self.view(_np.ndarray).reshape(-1)[0])
        raise TypeError("only length-1 arrays can be converted to Python scalars")

    def __int__(self):
        if self.size == 1:
            return sym_int(self.view(_np.ndarray).reshape(-1)[0])
        raise TypeError("only length-1 arrays can be converted to Python scalars")

    def __index__(self):
        if self.size == 1 and self.ndim == 0:
            return sym_int(self.view(_np.ndarray).reshape(-1)[0])
        raise TypeError("only integer scalar arrays can be converted to a scalar index")

    def __iter__(self):
        if self.ndim == 0:
            raise TypeError("iteration over a 0-d array")
        for i in range(self.shape[0]):
            yield self[i]

    def astype(self, dtype, *a, **k):
        kind = _dtype_kind(dtype)
        if kind == 'O':
            return self.copy()
        p = self.view(_np.ndarray)
        r = _np.empty(p.shape, dtype=object)
        rf = r.reshape(-1)
        for i, x in enumerate(p.flat):
            rf[i] = _astype_scalar(x, dtype)
        return r.view(SymArray)

    def any(self, axis=None, **kw):
        return _np.logical_or.reduce(_tobool(self), axis=axis)

    def all(self, axis=None, **kw):
        return _np.logical_and.reduce(_tobool(self), axis=axis)

    def sum(self, axis=None, **kw):
        return _np.add.reduce(self, axis=axis)

    def max(self, axis=None, **kw):
        return _np.maximum.reduce(self, axis=axis)

    def min(self, axis=None, **kw):
        return _np.minimum.reduce(self, axis=axis)

    def mean(self, axis=None, **kw):
        n = self.size if axis is None else self.shape[axis]
        if n == 0:
            return _np.float64('nan') if axis is None else _wrap(_np.full(_np.delete(self.shape, axis), _np.nan))
        s = self.sum(axis=axis)
        return _b_div(s, _np.float64(n)) if not isinstance(s, _np.ndarray) else s / _np.float64(n)

    def cumsum(self, axis=None, **kw):
        a = self.reshape(-1) if axis is None else self
        return _np.add.accumulate(a, axis=axis or 0)

    def tolist(self):
        return self.view(_np.ndarray).tolist()

    def argsort(self, axis=-1, kind=None, **kw):
        return _argsort(self, axis=axis, kind=kind)

    def argmax(self, axis=None, **kw):
        return _argmax(self, axis=axis)

    def argmin(self, axis=None, **kw):
        return _argmin(self, axis=axis)

    def sort(self, axis=-1, **kw):
        s = _sort(self, axis=axis)
        _plain(self)[...] = _plain(s)

    def nonzero(self):
        return _nonzero(self)

    def round(self, decimals=0, out=None):
        return _round(self, decimals)

    def item(self, *a):
        return self.view(_np.ndarray).item(*a)

    def dot(self, b):
        return _dot(self, b)

    def std(self, axis=None, ddof=0, **kw):
        return _std(self, axis=axis, ddof=ddof)

    def var(self, axis=None, ddof=0, **kw):
        return _var(self, axis=axis, ddof=ddof)

    def prod(self, axis=None, **kw):
        return _np.multiply.reduce(self, axis=axis)


def _ite(k, a, b):
    """If(k, a, b) over scalars which may be bool-like or numeric."""
    if isinstance(k, (bool, _np.bool_)):
        return a if k else b
    if _isboolish(a) and _isboolish(b):
        return SymBool(z3.If(_zb(k), _zb(a), _zb(b)))
    if _nonfinite(a) or _nonfinite(b):
        return a if bool(k) else b
    if isinstance(a, (int, float, bool)):
        a = _np.asarray(a)[()]
    return SymNum(z3.If(_zb(k), _z(a), _z(b)), grid=_grid_join(a, b))


def _tobool(a):
    p = _plain(a)
    if all(_isboolish(x) for x in p.flat):
        return a
    r = _np.empty(p.shape, dtype=object)
    rf = r.reshape(-1)
    for i, x in enumerate(p.flat):
        rf[i] = x if _isboolish(x) else (SymBool(x.e != 0) if isinstance(x, SymNum) else _np.bool_(bool(x)))
    return r.view(SymArray)


# ---------------------------------------------------------------------------
# __array_function__ handlers (comparison driven => fork)

_AF = {}


def _af(*funcs):
    def d(f):
        for fn in funcs:
            _AF[fn] = f
        return f
    return d


def _A(a):
    return _objarr(a).view(SymArray)


@_af(_np.any)
def _any(a, axis=None, **kw):
    return _A(a).any(axis=axis)


@_af(_np.all)
def _all(a, axis=None, **kw):
    return _A(a).all(axis=axis)


@_af(_np.sum)
def _sum(a, axis=None, **kw):
    return _A(a).sum(axis=axis)


@_af(_np.max, _np.amax)
def _amax(a, axis=None, **kw):
    return _A(a).max(axis=axis)


@_af(_np.min, _np.amin)
def _amin(a, axis=None, **kw):
    return _A(a).min(axis=axis)


@_af(_np.mean)
def _mean(a, axis=None, **kw):
    return _A(a).mean(axis=axis)


@_af(_np.cumsum)
def _cumsum(a, axis=None, **kw):
    return _A(a).cumsum(axis=axis)


@_af(_np.prod)
def _prod(a, axis=None, **kw):
    return _A(a).prod(axis=axis)


def _lt(a, b):
    return bool(_b_cmp('lt')(a, b))


def _argsort1(a):
    idx = []
    for i in range(len(a)):
        j = len(idx)
        while j > 0 and _lt(a[i], a[idx[j - 1]]):
            j -= 1
        idx.insert(j, i)
    return idx


@_af(_np.argsort)
def _argsort(a, axis=-1, kind=None, **kw):
    a = _objarr(a)
    if a.ndim == 1:
        return _np.array(_argsort1(a), dtype=_np.intp).view(_np.ndarray)
    if a.ndim == 2 and axis in (-1, 1):
        return _np.array([_argsort1(row) for row in a], dtype=_np.intp).reshape(a.shape)
    if a.ndim == 2 and axis == 0:
        return _np.array([_argsort1(row) for row in a.T], dtype=_np.intp).reshape(a.T.shape).T
    raise Unsupported("argsort nd")


@_af(_np.sort)
def _sort(a, axis=-1, **kw):
    a = _objarr(a)
    if a.ndim == 1:
        return _wrap(a[_argsort(a)])
    if a.ndim == 2 and axis in (-1, 1):
        return _wrap(_np.array([list(row[_argsort1(row)]) for row in a], dtype=object).reshape(a.shape))
    raise Unsupported("sort nd")


@_af(_np.searchsorted)
def _searchsorted(a, v, side='left', sorter=None):
    a = _objarr(a)
    vs = _objarr(v)
    scalar = vs.ndim == 0
    out = []
    cmp_lt, cmp_le = _b_cmp('lt'), _b_cmp('le')
    for x in vs.reshape(-1):
        k = 0
        n = len(a)
        while k < n:
            c = cmp_lt(a[k], x) if side == 'left' else cmp_le(a[k], x)
            if not bool(c):
                break
            k += 1
        out.append(k)
    r = _np.array(out, dtype=_np.intp)
    return r[0] if scalar else r.reshape(vs.shape)


def _conc_bools(a):
    a = _objarr(a)
    return _np.array([bool(x) for x in a.flat], dtype=bool).reshape(a.shape)


@_af(_np.argwhere)
def _argwhere(a):
    return _np.argwhere(_conc_bools(a))


@_af(_np.nonzero)
def _nonzero(a):
    return _np.nonzero(_conc_bools(a))


@_af(_np.flatnonzero)
def _flatnonzero(a):
    return _np.flatnonzero(_conc_bools(a))


@_af(_np.count_nonzero)
def _count_nonzero(a, axis=None, **kw):
    return _tobool(_A(a)).astype(float).sum(axis=axis)


@_af(_np.where)
def _where(c, *xy):
    if not xy:
        return _np.where(_conc_bools(c))
    x, y = xy
    c = _objarr(c)
    x = _objarr(x)
    y = _objarr(y)
    r = _np.frompyfunc(_ite, 3, 1)(c, x, y)
    return _wrap(r)


@_af(_np.unique)
def _unique(a, return_index=False, return_inverse=False, return_counts=False, axis=None, **kw):
    if axis is not None:
        raise Unsupported("unique axis")
    a = _objarr(a).reshape(-1)
    order = _argsort1(a)
    out, first, inv, cnt = [], [], [0] * len(a), []
    eq = _b_cmp('eq')
    for pos in order:
        x = a[pos]
        if not out or not bool(eq(out[-1], x)):
            out.append(x)
            first.append(int(pos))
            cnt.append(0)
        cnt[-1] += 1
        inv[int(pos)] = len(out) - 1
    r = _np.empty(len(out), dtype=object)
    for i, x in enumerate(out):
        r[i] = x
    res = [_wrap(r)]
    if return_index:
        res.append(_np.array(first, dtype=_np.intp))
    if return_inverse:
        res.append(_np.array(inv, dtype=_np.intp))
    if return_counts:
        res.append(_np.array(cnt, dtype=_np.intp))
    return res[0] if len(res) == 1 else tuple(res)


@_af(_np.argmin)
def _argmin(a, axis=None, **kw):
    a = _objarr(a)
    if axis is None or a.ndim == 1:
        a = a.reshape(-1)
        if a.size == 0:
            raise ValueError("attempt to get argmin of an empty sequence")
        b = 0
        for i in range(1, len(a)):
            if _lt(a[i], a[b]):
                b = i
        return _np.intp(b)
    if a.ndim == 2:
        rows = a if axis in (1, -1) else a.T
        return _np.array([_argmin(r) for r in rows], dtype=_np.intp)
    raise Unsupported("argmin nd")


@_af(_np.argmax)
def _argmax(a, axis=None, **kw):
    a = _objarr(a)
    if axis is None or a.ndim == 1:
        a = a.reshape(-1)
        if a.size == 0:
            raise ValueError("attempt to get argmax of an empty sequence")
        b = 0
        for i in range(1, len(a)):
            if _lt(a[b], a[i]):
                b = i
        return _np.intp(b)
    if a.ndim == 2:
        rows = a if axis in (1, -1) else a.T
        return _np.array([_argmax(r) for r in rows], dtype=_np.intp)
    raise Unsupported("argmax nd")


@_af(_np.median)
def _median(a, axis=None, **kw):
    a = _objarr(a)
    if axis is not None and a.ndim > 1:
        raise Unsupported("median axis")
    a = a.reshape(-1)
    n = len(a)
    if n == 0:
        return _np.float64('nan')
    s = a[_argsort1(a)]
    if n % 2:
        return _b_add(s[n // 2], _np.float64(0.0)) if not is_sym(s[n // 2]) else s[n // 2]
    return _b_div(_b_add(s[n // 2 - 1], s[n // 2]), _np.float64(2.0))


@_af(_np.round, _np.around)
def _round(a, decimals=0, out=None):
    a0 = _objarr(a)
    f = lambda x: sym_round(x, decimals) if is_sym(x) else _np.round(x, decimals)
    r = _np.frompyfunc(f, 1, 1)(a0)
    if out is not None:
        _plain(out)[...] = r          # in-place variant writes through to the caller's array
        return out
    return _wrap(r) if isinstance(r, _np.ndarray) else r


@_af(_np.diff)
def _diff(a, n=1, axis=-1, **kw):
    a = _objarr(a)
    if n != 1:
        raise Unsupported("diff n")
    if a.ndim == 0:
        raise ValueError("diff requires input that is at least one dimensional")
    sl1 = [slice(None)] * a.ndim
    sl2 = [slice(None)] * a.ndim
    sl1[axis] = slice(1, None)
    sl2[axis] = slice(None, -1)
    return _wrap(a[tuple(sl1)]).__array_ufunc__(_np.subtract, '__call__', a[tuple(sl1)], a[tuple(sl2)])


@_af(_np.dot)
def _dot(a, b, out=None):
    a = _objarr(a)
    b = _objarr(b)
    if a.ndim == 1 and b.ndim == 1:
        if a.shape != b.shape:
            raise ValueError("shapes not aligned")
        s = _np.int64(0) if a.size == 0 else None
        for x, y in zip(a, b):
            t = _b_mul(x, y)
            s = t if s is None else _b_add(s, t)
        return s
    if a.ndim == 2 and b.ndim == 1:
        return _wrap(_np.array([_dot(r, b) for r in a] + [None], dtype=object)[:-1])
    if a.ndim == 2 and b.ndim == 2:
        r = _np.empty((a.shape[0], b.shape[1]), dtype=object)
        for i in range(a.shape[0]):
            for j in range(b.shape[1]):
                r[i, j] = _dot(a[i], b[:, j])
        return _wrap(r)
    if a.ndim == 1 and b.ndim == 2:
        return _wrap(_np.array([_dot(a, b[:, j]) for j in range(b.shape[1])] + [None], dtype=object)[:-1])
    raise Unsupported("dot nd")


def _var(a, axis=None, ddof=0):
    a = _A(a)
    if axis is not None:
        raise Unsupported("var axis")
    n = a.size
    if n - ddof <= 0:
        return _np.float64('nan')
    m = a.mean()
    d = a.reshape(-1) - m
    return _b_div((d * d).sum(), _np.float64(n - ddof))


@_af(_np.var)
def _np_var(a, axis=None, ddof=0, **kw):
    return _var(a, axis, ddof)


def _std(a, axis=None, ddof=0):
    v = _var(a, axis, ddof)
    return _tr('sqrt')(v)


@_af(_np.std)
def _np_std(a, axis=None, ddof=0, **kw):
    return _std(a, axis, ddof)


@_af(_np.isclose)
def _isclose(a, b, rtol=1e-5, atol=1e-8, equal_nan=False):
    a = _A(a)
    b = _A(b)
    return abs(a - b) <= (atol + rtol * abs(b))


@_af(_np.allclose)
def _allclose(a, b, rtol=1e-5, atol=1e-8, equal_nan=False):
    a = _objarr(a)
    b = _objarr(b)
    if a.shape != b.shape:
        try:
            _np.broadcast_shapes(a.shape, b.shape)
        except ValueError:
            raise ValueError("operands could not be broadcast together with shapes %s %s" % (a.shape, b.shape))
    r = _isclose(a, b, rtol, atol)
    return bool(_A(r).all()) if isinstance(r, _np.ndarray) else bool(r)


@_af(_np.array_equal)
def _array_equal(a, b, **kw):
    a = _objarr(a)
    b = _objarr(b)
    if a.shape != b.shape:
        return False
    r = a.view(SymArray) == b.view(SymArray)
    return bool(_A(r).all()) if isinstance(r, _np.ndarray) else bool(r)


@_af(_np.clip)
def _clip(a, a_min=None, a_max=None, **kw):
    r = _A(a)
    if a_min is not None:
        r = _np.maximum(r, a_min)
    if a_max is not None:
        r = _np.minimum(r, a_max)
    return r


@_af(_np.isin)
def _isin(el, test, **kw):
    el = _objarr(el)
    test = _objarr(test).reshape(-1)
    eq = _b_cmp('eq')

    def f(x):
        r = _np.bool_(False)
        for t in test:
            r = _lor(r, eq(x, t))
        return r
    r = _np.frompyfunc(f, 1, 1)(el)
    return _wrap(r) if isinstance(r, _np.ndarray) else r


@_af(_np.bincount)
def _bincount(x, weights=None, minlength=0):
    x = demote(_A(x))
    if weights is None:
        return _wrap(_np.bincount(x.astype(_np.intp), minlength=minlength))
    w = _objarr(weights)
    n = max(int(x.max()) + 1 if x.size else 0, minlength)
    r = _np.empty(n, dtype=object)
    for i in range(n):
        r[i] = _np.float64(0.0)
    for i, k in enumerate(x.astype(_np.intp)):
        r[k] = _b_add(r[k], w[i])
    return _wrap(r)


@_af(_np.interp)
def _interp(x, xp, fp, left=None, right=None, period=None):
    if period is not None:
        raise Unsupported("interp period")
    xs = _objarr(x)
    scalar = xs.ndim == 0
    xp = _objarr(xp)
    fp = _objarr(fp)
    n = len(xp)
    out = []
    lt, le = _b_cmp('lt'), _b_cmp('le')
    for xv in xs.reshape(-1):
        if n == 0:
            raise ValueError("array of sample points is empty")
        if bool(lt(xv, xp[0])):
            out.append(fp[0] if left is None else left)
            continue
        if bool(lt(xp[n - 1], xv)):
            out.append(fp[n - 1] if right is None else right)
            continue
        # find i with xp[i] <= xv < xp[i+1] (largest such i: numpy uses binary search 'right' - 1)
        i = 0
        while i + 1 < n and bool(le(xp[i + 1], xv)):
            i += 1
        if i == n - 1 or bool(_b_cmp('eq')(xv, xp[i])):
            out.append(fp[i])
            continue
        fr = _b_div(_b_sub(xv, xp[i]), _b_sub(xp[i + 1], xp[i]))
        out.append(_b_add(fp[i], _b_mul(_b_sub(fp[i + 1], fp[i]), fr)))
    r = _np.empty(len(out), dtype=object)
    for i, v in enumerate(out):
        r[i] = v
    return r[0] if scalar else _wrap(r.reshape(xs.shape))


def _cat_like(name):
    real = getattr(_np, name)

    def f(tup, *a, **k):
        k.pop('dtype', None)
        parts = [_objarr(t) for t in tup]
        return _wrap(real(parts, *a, **k))
    return f


for _n in ('vstack', 'hstack', 'concatenate', 'stack', 'column_stack', 'dstack'):
    _AF[getattr(_np, _n)] = _cat_like(_n)


@_af(_np.append)
def _append(a, v, axis=None):
    return _wrap(_np.append(_objarr(a), _objarr(v), axis=axis))


@_af(_np.insert)
def _insert(a, idx, v, axis=None):
    return _wrap(_np.insert(_objarr(a), _conc_key(idx), _objarr(v), axis=axis))


@_af(_np.delete)
def _delete(a, idx, axis=None):
    return _wrap(_np.delete(_objarr(a), _conc_key(idx), axis=axis))


@_af(_np.ravel)
def _ravel(a, order='C'):
    return _wrap(_objarr(a).ravel(order))


@_af(_np.squeeze)
def _squeeze(a, axis=None):
    return _wrap(_np.squeeze(_objarr(a), axis=axis))


@_af(_np.atleast_1d)
def _atleast_1d(*arys):
    r = [_wrap(_np.atleast_1d(_objarr(a))) for a in arys]
    return r[0] if len(r) == 1 else r


@_af(_np.atleast_2d)
def _atleast_2d(*arys):
    r = [_wrap(_np.atleast_2d(_objarr(a))) for a in arys]
    return r[0] if len(r) == 1 else r


@_af(_np.outer)
def _outer(a, b, out=None):
    return _np.multiply.outer(_A(a).reshape(-1), _A(b).reshape(-1))


@_af(_np.tile)
def _tile(a, reps):
    return _wrap(_np.tile(_objarr(a), reps))


@_af(_np.repeat)
def _repeat(a, repeats, axis=None):
    return _wrap(_np.repeat(_objarr(a), _conc_key(repeats), axis=axis))


@_af(_np.roll)
def _roll(a, shift, axis=None):
    return _wrap(_np.roll(_objarr(a), _conc_key(shift), axis=axis))


@_af(_np.transpose)
def _transpose(a, axes=None):
    return _wrap(_np.transpose(_objarr(a), axes))


@_af(_np.reshape)
def _reshape(a, *args, **kw):
    return _wrap(_np.reshape(_objarr(a), *args, **kw))


@_af(_np.copy)
def _copy(a, **kw):
    return _wrap(_objarr(a).copy())


@_af(_np.flip)
def _flip(a, axis=None):
    return _wrap(_np.flip(_objarr(a), axis))


@_af(_np.trapezoid) if hasattr(_np, 'trapezoid') else (lambda f: f)
def _trapz(y, x=None, dx=1.0, axis=-1):
    raise Unsupported("trapezoid")


@_af(_np.zeros_like)
def _zeros_like(a, dtype=None, **kw):
    a = _objarr(a)
    return NP.zeros(a.shape, dtype=dtype or float)


@_af(_np.ones_like)
def _ones_like(a, dtype=None, **kw):
    a = _objarr(a)
    return NP.ones(a.shape, dtype=dtype or float)


@_af(_np.empty_like)
def _empty_like(a, dtype=None, **kw):
    a = _objarr(a)
    return NP.empty(a.shape, dtype=dtype or float)


@_af(_np.full_like)
def _full_like(a, fill, dtype=None, **kw):
    a = _objarr(a)
    return NP.full(a.shape, fill)


@_af(_np.shape)
def _shape(a):
    return _objarr(a).shape


@_af(_np.ndim)
def _ndim(a):
    return _objarr(a).ndim


@_af(_np.size)
def _size(a, axis=None):
    return _np.size(_plain(_objarr(a)), axis)


@_af(_np.nanmean)
def _nanmean(a, axis=None, **kw):
    a = _objarr(a)
    if axis is not None:
        raise Unsupported("nanmean axis")
    vals = [x for x in a.flat if is_sym(x) or not _np.isnan(x)]
    if not vals:
        return _np.float64('nan')
    return array(vals).mean()


@_af(_np.lexsort)
def _lexsort(keys, axis=-1):
    raise Unsupported("lexsort")


# ---------------------------------------------------------------------------
# the `np` proxy

class _Linalg:
    exact = False

    def lstsq(self, a, b, rcond=None):
        """least squares on symbolic data is *nondeterministic*: the solution is a vector of fresh unconstrained reals
        (results therefore hold for any regression outcome); identical arguments on one path give the identical solution.
        With `exact` (Job(lstsq_exact=True)) the solution is constrained by the normal equations A^T (A x - b) = 0, which
        every least-squares minimiser satisfies (a rank-deficient system keeps its freedom: NumPy's minimum-norm choice is
        not modelled)."""
        if not (_has_sym(a) or _has_sym(b)):
            return _np.linalg.lstsq(demote(a) if isinstance(a, SymArray) else a, demote(b) if isinstance(b, SymArray) else b, rcond=rcond)
        c = cur()
        A_ = _objarr(a)
        B_ = _objarr(b)
        key = ('lstsq',) + tuple(_z(v).get_id() if is_sym(v) else repr(v) for v in list(A_.reshape(-1)) + list(B_.reshape(-1)))
        cache = c.__dict__.setdefault('_nondet', {})
        if key not in cache:
            ncol = A_.shape[1]
            cache[key] = [SymNum(c.fresh_real('lstsq')) for _ in range(ncol)]
            c._keep.extend(_z(v) for v in list(A_.reshape(-1)) + list(B_.reshape(-1)) if is_sym(v))
            if self.exact:
                if B_.ndim != 1:
                    raise Unsupported("exact lstsq with a matrix right-hand side")
                xs = [_z(v) for v in cache[key]]
                res = []
                for i in range(A_.shape[0]):
                    r = -_z(B_[i])
                    for k in range(ncol):
                        r = r + _z(A_[i, k]) * xs[k]
                    res.append(r)
                for k in range(ncol):
                    tot = z3.RealVal(0)
                    for i in range(A_.shape[0]):
                        tot = tot + _z(A_[i, k]) * res[i]
                    c.add(z3.simplify(tot) == 0)
        return array(cache[key]), None, None, None

    def __getattr__(self, n):
        real = getattr(_np.linalg, n)

        def f(*a, **k):
            if any(_has_sym(x) for x in a):
                raise Unsupported("np.linalg.%s on symbolic data" % n)
            return real(*[demote(x) if isinstance(x, SymArray) else x for x in a], **k)
        return f


class NPProxy:
    """Stands in for the module-global ``np`` inside analysed modules."""

    def __init__(self):
        self.linalg = _Linalg()
        self.overrides = {}
        self.fresh_empty = False     # np.empty returns fresh unconstrained variables
        self.fft = _Unsup("np.fft")
        self.random = _np.random

    def __getattr__(self, n):
        ov = self.__dict__.get('overrides', {})
        if n in ov:
            return ov[n]
        real = getattr(_np, n)
        if isinstance(real, type) or not callable(real):
            return real
        if isinstance(real, _np.ufunc):
            return _UfuncProxy(real)

        def wrapper(*a, **k):
            a2 = [_lift(x) for x in a]
            if not any(isinstance(x, SymArray) for x in a2) and not any(isinstance(v, SymArray) for v in k.values()):
                # purely concrete call: run numpy, then bring the result into the closed world
                return _promote(real(*a2, **k))
            if all(_is_concrete(x) for x in a2) and all(_is_concrete(v) for v in k.values()):
                with _np.errstate(all='ignore'):
                    return _promote(real(*[_demote1(x) for x in a2], **{kk: _demote1(v) for kk, v in k.items()}))
            h = _AF.get(real)
            if h is not None:
                return _promote(h(*a2, **k))
            return _promote(real(*a2, **k))
        wrapper.__name__ = n
        return wrapper

    # constructors: always SymArray (closed world)
    def arange(self, *a, **k):
        a = [sym_int(x) if is_sym(x) and _isint(x) else x for x in a]
        if any(is_sym(x) for x in a):
            # arange(start, stop, step) with symbolic bounds: enumerate the length
            raise Unsupported("arange with symbolic non-integer bounds")
        return _wrap(_np.arange(*a, **k))

    def zeros(self, shape, dtype=float, **k):
        return _wrap(_np.zeros(_conc_shape(shape), dtype=_cdtype(dtype)))

    def ones(self, shape, dtype=float, **k):
        return _wrap(_np.ones(_conc_shape(shape), dtype=_cdtype(dtype)))

    def empty(self, shape, dtype=float, **k):
        shape = _conc_shape(shape)
        if self.fresh_empty and _dtype_kind(dtype) == 'f':
            r = _np.empty(shape, dtype=object)
            rf = r.reshape(-1)
            c = cur()
            for i in range(rf.size):
                rf[i] = SymNum(c.fresh_real("uninit"))
            return r.view(SymArray)
        return _wrap(_np.zeros(shape, dtype=_cdtype(dtype)))

    def full(self, shape, fill, dtype=None, **k):
        r = _np.empty(_conc_shape(shape), dtype=object)
        fv = fill if is_sym(fill) else _np.asarray(fill)[()]
        rf = r.reshape(-1)
        for i in range(rf.size):
            rf[i] = fv
        return r.view(SymArray)

    def eye(self, *a, **k):
        return _wrap(_np.eye(*a, **k))

    def linspace(self, *a, **k):
        if any(is_sym(x) for x in a):
            raise Unsupported("linspace symbolic")
        return _wrap(_np.linspace(*a, **k))

    def array(self, obj, dtype=None, copy=True, **k):
        if isinstance(obj, SymArray):
            r = obj.copy()
        else:
            r = _objarr(obj)
            if isinstance(obj, _np.ndarray):
                r = r.copy() if r is obj else r
            r = r.view(SymArray) if r.ndim else r
        if dtype is not None and _dtype_kind(dtype) != 'O':
            if isinstance(r, SymArray):
                r = r.astype(dtype)
            else:
                return _astype_scalar(r.item() if isinstance(r, _np.ndarray) else r, dtype)
        if isinstance(r, _np.ndarray) and r.ndim == 0:
            return r.item()
        return r

    def asarray(self, obj, dtype=None, **k):
        if isinstance(obj, SymArray) and (dtype is None or _dtype_kind(dtype) == 'O'):
            return obj
        if isinstance(obj, SymArray):
            # dtype conversion of an existing array: no-op when already of that kind
            return obj.astype(dtype) if not _kind_matches(obj, dtype) else obj
        return self.array(obj, dtype=dtype)

    def asanyarray(self, obj, dtype=None, **k):
        return self.asarray(obj, dtype=dtype)

    def ascontiguousarray(self, obj, dtype=None, **k):
        return self.asarray(obj, dtype=dtype)


def _kind_matches(a, dtype):
    kind = _dtype_kind(dtype)
    for x in _plain(a).flat:
        if kind == 'f' and (isinstance(x, (SymBool, _np.bool_, _np.integer)) or (isinstance(x, SymNum) and x.isint and False)):
            return False
        if kind == 'i' and not _isint(x):
            return False
        if kind == 'b' and not _isboolish(x):
            return False
    return True


class _Unsup:
    def __init__(self, what):
        self._what = what

    def __getattr__(self, n):
        raise Unsupported("%s.%s" % (self._what, n))


class _UfuncProxy:
    def __init__(self, real):
        self._real = real
        self.__name__ = real.__name__

    def _go(self, method, a, k):
        a2 = [_lift(x) for x in a]
        if any(isinstance(x, SymArray) for x in a2):
            if not isinstance(a2[0], SymArray):
                # make sure dispatch reaches SymArray.__array_ufunc__
                a2[0] = _A(a2[0])
            fn = self._real if method == '__call__' else getattr(self._real, method)
            return _promote(fn(*a2, **k))
        fn = self._real if method == '__call__' else getattr(self._real, method)
        with _np.errstate(all='ignore'):
            return _promote(fn(*a2, **k))

    def __call__(self, *a, **k):
        return self._go('__call__', a, k)

    def outer(self, *a, **k):
        return self._go('outer', a, k)

    def reduce(self, *a, **k):
        return self._go('reduce', a, k)

    def accumulate(self, *a, **k):
        return self._go('accumulate', a, k)


def _cdtype(dtype):
    k = _dtype_kind(dtype)
    return {'f': float, 'i': _np.int64, 'b': bool, 'O': float}.get(k, dtype) if dtype in (sym_float, sym_int, float, int, bool, None) else dtype


def _conc_shape(shape):
    if isinstance(shape, (tuple, list)):
        return tuple(sym_int(s) if is_sym(s) else int(s) for s in shape)
    return sym_int(shape) if is_sym(shape) else int(shape)


def _lift(x):
    if is_sym(x):
        r = _np.empty((), dtype=object)
        r[()] = x
        return r.view(SymArray)
    if isinstance(x, (list, tuple)) and x and _has_sym(x):
        try:
            return _objarr(x).view(SymArray)
        except ValueError:
            return x
    return x


def _promote(r):
    if isinstance(r, SymArray):
        if r.ndim == 0:
            return r.view(_np.ndarray).item()
        return r
    if isinstance(r, _np.ndarray):
        if r.ndim == 0:
            return r.item() if r.dtype == object else r[()]
        return _wrap(r)
    if isinstance(r, tuple):
        return tuple(_promote(x) for x in r)
    if isinstance(r, list):
        return [_promote(x) for x in r]
    return r


NP = NPProxy()


# ---------------------------------------------------------------------------
# builtin replacements (rebound in analysed modules where symbolic values reach them)

def sym_min(*a, **k):
    if len(a) == 1:
        seq = list(a[0])
    else:
        seq = list(a)
    if not seq:
        if 'default' in k:
            return k['default']
        raise ValueError("min() arg is an empty sequence")
    key = k.get('key')
    b = seq[0]
    for x in seq[1:]:
        if bool((key(x) if key else x) < (key(b) if key else b)):
            b = x
    return b


def sym_max(*a, **k):
    if len(a) == 1:
        seq = list(a[0])
    else:
        seq = list(a)
    if not seq:
        if 'default' in k:
            return k['default']
        raise ValueError("max() arg is an empty sequence")
    key = k.get('key')
    b = seq[0]
    for x in seq[1:]:
        if bool((key(x) if key else x) > (key(b) if key else b)):
            b = x
    return b


def sym_sum(seq, start=0):
    s = start
    for x in seq:
        s = _b_add(s, x)
    return s


def sym_abs(x):
    return abs(x)


def sym_bool(x=False):
    return bool(x)


def sym_isinstance_float(x):
    return isinstance(x, (float, SymNum))


# ---------------------------------------------------------------------------
# exploration driver

class PathResult:
    __slots__ = ("status", "value", "prefix", "checks", "decisions", "solver_s", "detail", "first_attempt")

    def __init__(self, status, value=None, prefix=(), checks=0, decisions=0, solver_s=0.0, detail=None):
        self.status = status      # 'ok' | 'unsupported' | 'budget' | 'infeasible'
        self.value = value
        self.prefix = tuple(prefix)
        self.checks = checks
        self.decisions = decisions
        self.solver_s = solver_s
        self.detail = detail


class _Alarm:
    """wall-clock limit for one path (a mutant may loop forever without taking a decision)"""

    def __init__(self, seconds):
        self.seconds = seconds

    def _fire(self, signum, frame):
        raise Budget("path wall-clock budget (%ss)" % self.seconds)

    def __enter__(self):
        import signal
        self.old = signal.signal(signal.SIGALRM, self._fire)
        signal.setitimer(signal.ITIMER_REAL, self.seconds)

    def __exit__(self, *a):
        import signal
        signal.setitimer(signal.ITIMER_REAL, 0)
        signal.signal(signal.SIGALRM, self.old)
        return False


def explore(fn, max_paths=200000, deadline=None, timeout_ms=20000, max_decisions=20000, prefixes=None, on_path=None, path_seconds=90):
    """Run fn(ctx) once per feasible path (DFS).  Yields PathResult objects via on_path
    or collects them.  fn may return any value (stored in PathResult.value).
    A path that exceeds its wall-clock limit is handed to on_path, which may answer 'retry' (the real code terminated on the
    path's witness, so the limit was hit by the analysis, e.g. on a loaded machine): it is then re-run once with three times
    the limit."""
    work = list(prefixes) if prefixes else [()]
    results = []
    n = 0
    complete = True
    retried = set()
    while work:
        if deadline is not None and time.time() > deadline:
            complete = False
            break
        if n >= max_paths:
            complete = False
            break
        prefix = work.pop()
        again = tuple(prefix) in retried
        ctx = Ctx(prefix, timeout_ms=timeout_ms, max_decisions=max_decisions)
        Ctx.cur = ctx
        try:
            try:
                with _Alarm(path_seconds * 3 if again else path_seconds):
                    v = fn(ctx)
                pr = PathResult('ok', v)
            except PathAbort:
                pr = PathResult('infeasible')
            except Unsupported as ex:
                pr = PathResult('unsupported', detail=str(ex))
            except Budget as ex:
                pr = PathResult('budget', detail=str(ex))
            except z3.Z3Exception as ex:
                pr = PathResult('unsupported', detail="z3: %s" % ex)
        finally:
            Ctx.cur = None
        pr.prefix = tuple(ctx.path)
        pr.checks = ctx.n_checks
        pr.decisions = ctx.forked
        pr.solver_s = ctx.solver_s
        pr.first_attempt = not again
        n += 1
        ans = None
        if on_path is not None:
            ans = on_path(pr, ctx)
        else:
            results.append(pr)
        if ans == 'retry' and not again:
            # the alternatives found so far are rediscovered by the second run
            retried.add(tuple(prefix))
            work.append(prefix)
            continue
        work.extend(ctx.alts)
    return results, complete, work
