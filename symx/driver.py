"""Parallel job scheduling, known-findings handling, evidence, exit codes."""
import importlib
import json
import multiprocessing as mp
import os
import random
import re
import sys
import time

from . import harness as H

VERIF = os.path.dirname(os.path.dirname(os.path.abspath(__file__)))
EVID = os.path.join(VERIF, 'evidence')
REPLAYS = os.path.join(EVID, 'replays')

_JOBS = []


def _work(task):
    idx, prefixes, slice_s = task
    job = _JOBS[idx]
    r = H.Runner(job)
    deadline = time.time() + slice_s
    try:
        res = r.run(prefixes=prefixes, deadline=deadline)
    except BaseException as ex:   # engine bug: report as harness error
        import traceback
        res = r.res
        res.complete = False
        res.leftover = []
        res.errors.append("runner crashed: %s: %s\n%s" % (type(ex).__name__, ex, traceback.format_exc()[-1500:]))
    return idx, res


def run_jobs(jobs, nproc=None, slice_s=20.0, total_budget_s=3600, verbose=False):
    """Explore all jobs on a process pool.  Jobs whose slice expires hand their
    remaining decision prefixes back to be redistributed."""
    global _JOBS
    _JOBS = jobs
    nproc = nproc or int(os.environ.get("VERIF_WORKERS", 0) or min(16, os.cpu_count() or 1))
    results = {i: H.JobResult(j) for i, j in enumerate(jobs)}
    started = {i: time.time() for i in results}
    t0 = time.time()
    ctxm = mp.get_context('fork')
    timed_out = set()
    hard_stop = False
    outstanding = {i: 1 for i in range(len(jobs))}   # tasks in flight per job
    finished = {}
    with ctxm.Pool(nproc, maxtasksperchild=50) as pool:
        pending = []
        for i in range(len(jobs)):
            pending.append(pool.apply_async(_work, ((i, None, slice_s),)))
        while pending:
            nxt = []
            progressed = False
            for p in pending:
                if not p.ready():
                    nxt.append(p)
                    continue
                progressed = True
                idx, res = p.get()
                outstanding[idx] -= 1
                left = res.leftover
                res.leftover = []
                requeue = False
                if left:
                    elapsed = time.time() - t0
                    if elapsed > total_budget_s or (time.time() - started[idx]) > jobs[idx].timeout_s:
                        timed_out.add(idx)
                    else:
                        requeue = True
                        res.complete = True
                results[idx].merge(res)
                if requeue:
                    nchunks = min(len(left), max(1, nproc // 2))
                    chunks = [left[k::nchunks] for k in range(nchunks)]
                    for ch in chunks:
                        nxt.append(pool.apply_async(_work, ((idx, ch, slice_s),)))
                        outstanding[idx] += 1
                if outstanding[idx] == 0:
                    finished[idx] = True
            pending = nxt
            if pending and time.time() - t0 > total_budget_s + 30:
                # hard stop: the budget is binding
                pool.terminate()
                for i in range(len(jobs)):
                    if not results[i].paths or any(True for p in pending):
                        pass
                timed_out.update(range(len(jobs)))
                hard_stop = True
                break
            if not progressed:
                time.sleep(0.05)
    if hard_stop:
        # only jobs that still had work outstanding are incomplete
        timed_out = set(i for i in timed_out if not finished.get(i))
    for idx in timed_out:
        results[idx].complete = False
        results[idx].errors.append("job timed out with unexplored paths")
    if verbose:
        for i, j in enumerate(jobs):
            r = results[i]
            if r.exc_msgs:
                print("      exceptions: %s" % r.exc_msgs)
            print("  job %-55s paths=%-6d obl=%d/%d sat=%d exc=%s xval=%d/%d%s%s" % (
                j.name, r.paths, r.discharged, r.obligations, r.sat, r.exc_paths, r.xval_ok, r.xval_ok + r.xval_inexact + len(r.xval_bad),
                " UNSUPPORTED:%s" % str(r.unsupported[:1])[:160] if r.unsupported else "", " ERR:%s" % str(r.errors[:1])[:160] if r.errors else ""))
    return [results[i] for i in range(len(jobs))]


# ---------------------------------------------------------------------------
# known findings

def load_known():
    p = os.path.join(VERIF, 'known_findings.json')
    if not os.path.exists(p):
        return []
    with open(p) as f:
        return json.load(f).get('findings', [])


def match_known(v, known):
    for k in known:
        if k.get('status') != 'known':
            continue
        if k['property'] != v['prop']:
            continue
        if not re.search(k['job'], v['job']):
            continue
        if k.get('site') and not re.search(k['site'], v['site']):
            continue
        when = k.get('when')
        if when:
            try:
                import numpy as np
                import props.kf_helpers as kf
                ok = eval(when, {'np': np, 'kf': kf, 'inputs': H.from_json(v['inputs']), 'len': len, 'set': set, 'any': any, 'all': all,
                                 'abs': abs, 'min': min, 'max': max, 'sorted': sorted, 'float': float, 'sum': sum, 'range': range, 'tuple': tuple, 'list': list, 'zip': zip, 'int': int})
            except Exception:
                ok = False
            if not ok:
                continue
        return k
    return None


# ---------------------------------------------------------------------------
# top-level check of one property

def check_property(pid, tier, jobs, seed=0, meta=None, verbose=False, budget_s=None):
    # second-opinion solver runs: on in the thorough tier, VERIF_CROSSCHECK=0/1 overrides
    H.CROSSCHECK = os.environ.get('VERIF_CROSSCHECK', '1' if tier == 'thorough' else '0') == '1'
    t0 = time.time()
    os.makedirs(REPLAYS, exist_ok=True)
    rnd = random.Random(seed)
    order = list(range(len(jobs)))
    # long jobs first (stable heuristics: declared timeout), ties shuffled by seed
    rnd.shuffle(order)
    jobs = [jobs[i] for i in sorted(order, key=lambda i: -jobs[i].timeout_s)]
    results = run_jobs(jobs, verbose=verbose, total_budget_s=budget_s or float(os.environ.get('VERIF_BUDGET', 0) or (420 if tier == 'quick' else 1500)))
    known = load_known()
    violations, known_hits, inconclusive = [], [], []
    tot = dict(paths=0, forks=0, checks=0, solver_s=0.0, obligations=0, discharged=0, sat=0, unknown=0, xval_ok=0, xval_inexact=0, xval_skipped=0,
               exc_paths={}, unconfirmed=0)
    pending_unconfirmed = []
    xc = dict(checked=0, agree=0, inconclusive=0, seconds=0.0)
    xc_bad = []
    samples = []
    jobstats = []
    unreached = []
    funcs = set()
    for j, r in zip(jobs, results):
        funcs.update(j.funcs)
        for k in ('paths', 'forks', 'checks', 'solver_s', 'obligations', 'discharged', 'sat', 'unknown', 'xval_ok', 'xval_inexact', 'xval_skipped'):
            tot[k] += getattr(r, k)
        tot['unconfirmed'] += len(r.unconfirmed)
        for k in xc:
            xc[k] += r.xc[k]
        for d in r.xc_disagree:
            n = len(xc_bad)
            os.makedirs(REPLAYS, exist_ok=True)
            fn = os.path.join(REPLAYS, "%s-solver-disagreement-%d.smt2" % (pid, n))
            with open(fn, 'w') as f:
                f.write(d['smt2'])
            xc_bad.append(dict(job=d['job'], site=d['site'], verdicts=d['verdicts'], smt2=fn))
            inconclusive.append("%s: solvers disagree on a discharged obligation at %s: z3-5.1 unsat, %s (%s)" % (d['job'], d['site'], d['verdicts'], fn))
        for k, v in r.exc_paths.items():
            tot['exc_paths'][k] = tot['exc_paths'].get(k, 0) + v
        if len(samples) < 6:
            samples += r.samples[:1]
        jobstats.append(dict(job=j.name, paths=r.paths, obligations=r.obligations, discharged=r.discharged, sat=r.sat,
                             exception_paths=r.exc_paths, wall_s=round(r.wall, 2), bounds=j.bounds,
                             sites={k: v for k, v in r.sites.items()}))
        if not r.complete:
            inconclusive.append("%s: exploration incomplete %s" % (j.name, r.errors[:1]))
        if r.unsupported:
            inconclusive.append("%s: unsupported operation: %s" % (j.name, r.unsupported[0]))
        if r.budget:
            inconclusive.append("%s: %d paths exceeded the decision budget" % (j.name, r.budget))
        if r.unknown:
            inconclusive.append("%s: solver returned unknown %d times" % (j.name, r.unknown))
        if r.xval_bad:
            inconclusive.append("%s: cross-validation mismatch: %s" % (j.name, r.xval_bad[0]['why']))
        for e in r.errors:
            if e not in ("job timed out with unexplored paths",) and not e.startswith('unknown at'):
                inconclusive.append("%s: %s" % (j.name, e))
        if r.unconfirmed:
            pending_unconfirmed.append((j, r))
        if r.complete and r.paths > 0 and r.obligations == 0 and not r.unsupported:
            unreached.append(j.name + (" (every path ended in an exception: %s)" % r.exc_msgs[:1] if r.exc_paths else ""))
        for v in r.violations:
            k = match_known(v, known)
            if k is not None:
                known_hits.append((k, v))
            else:
                violations.append(v)
    for u in unreached:
        inconclusive.append("%s: no obligation reached (vacuous)" % u)
    # sat obligations whose witness did not replay (e.g. exact ties between irrational frequencies, which float64 cannot hit): if the
    # witness falls under a known finding that was *confirmed by a replayed witness of the same job in this run*, it is attributed to
    # that finding; every other one makes the check inconclusive
    confirmed = {(k.get('id', k.get('what')), v['job']) for k, v in known_hits}
    attributed = 0
    for j, r in pending_unconfirmed:
        rest = []
        for u in r.unconfirmed:
            k = match_known(dict(prop=pid, job=u['job'], site=u['site'], inputs=u['inputs']), known) if u.get('inputs') is not None else None
            if k is not None and (k.get('id', k.get('what')), u['job']) in confirmed:
                attributed += 1
            else:
                rest.append(u)
        if rest:
            inconclusive.append("%s: %d sat obligations whose witness did not reproduce on the real code (site %s)" % (j.name, len(rest), rest[0]['site']))

    # report
    seen = set()
    for k, v in known_hits:
        key = k.get('id', k.get('what'))
        if key in seen:
            continue
        seen.add(key)
        print("KNOWN-FINDING: property=%s %s" % (pid, k['what']))
    vio_paths = []
    seen_sites = set()
    for n, v in enumerate(violations):
        key = (v['job'], v['site'])
        if key in seen_sites:
            continue
        seen_sites.add(key)
        if len(vio_paths) >= 10:
            break
        p = os.path.join(REPLAYS, "%s-%d.json" % (pid, len(vio_paths)))
        with open(p, 'w') as f:
            json.dump(v, f, indent=1)
        vio_paths.append(p)
        print("VIOLATION property=%s replay=%s" % (pid, p))
        print("  job=%s site=%s inputs=%s" % (v['job'], v['site'], json.dumps(v['inputs'])[:400]))
    for m in inconclusive[:20]:
        print("INCONCLUSIVE: %s" % m)

    wall = time.time() - t0
    ev = dict(
        property_id=pid, tier=tier, seed=seed, level='model_checking',
        coverage=dict(
            states=tot['paths'], transitions=tot['forks'], traces_validated_against_impl=tot['xval_ok'],
            samples=samples or [dict(note="no path sample")],
            obligations=tot['obligations'], discharged=tot['discharged'],
            queries=dict(total=tot['checks'], sat_obligations=tot['sat'], unknown=tot['unknown']),
            solver_seconds=round(tot['solver_s'], 2),
            exception_paths=tot['exc_paths'],
            xval_inexact=tot['xval_inexact'],
            xval_skipped=tot['xval_skipped'],
            unconfirmed_witnesses=tot['unconfirmed'],
            unconfirmed_attributed_to_confirmed_known_findings=attributed,
            second_opinion=dict(enabled=H.CROSSCHECK, solvers=[n for n, _ in H.Runner.XC_SOLVERS], queries_rechecked=xc['checked'], agree_unsat=xc['agree'],
                                no_verdict=xc['inconclusive'], disagreements=xc_bad, seconds=round(xc['seconds'], 1),
                                rule="the first non-trivially discharged obligation of every job slice and every 250th after it is exported as SMT-LIB2 "
                                     "(path condition and negated requirement) and re-decided by /usr/bin/z3 4.8.12 and the cvc5 1.0 binary; a 'sat' answer makes the check inconclusive"),
            known_findings_hit=sorted(seen),
            functions_encoded=H.source_hashes(sorted(funcs)),
            jobs=jobstats,
            exhaustive=False,
            explanation=(meta or {}).get('explanation', ''),
            bounds=(meta or {}).get('bounds', ''),
            stubs=(meta or {}).get('stubs', []),
            inconclusive=inconclusive[:20],
        ),
        assumptions=(meta or {}).get('assumptions', []),
        wall_s=round(wall, 2),
        violations=len(vio_paths),
    )
    os.makedirs(EVID, exist_ok=True)
    with open(os.path.join(EVID, "%s.json" % pid), 'w') as f:
        json.dump(ev, f, indent=1, default=str)
    print("%s %s: jobs=%d paths=%d obligations=%d discharged=%d sat=%d known=%d violations=%d inconclusive=%d xval=%d xval_inexact=%d wall=%.1fs" % (
        pid, tier, len(jobs), tot['paths'], tot['obligations'], tot['discharged'], tot['sat'], len(known_hits), len(vio_paths),
        len(inconclusive), tot['xval_ok'], tot['xval_inexact'], wall))
    if vio_paths:
        return 1
    if inconclusive:
        return 2
    return 0
