"""Jobs, obligations, witnesses, replay, cross-validation, evidence.

A *job* is (build, body): ``build(ctx)`` creates symbolic inputs (concrete shapes,
symbolic elements) and records assumptions; ``body(A, inputs)`` calls the real
mir_eval functions and states the property through the assertion API ``A``.  The
same body runs in two modes: symbolically (modules patched, ``A`` proves each
requirement with the solver under the path condition) and concretely (modules
unpatched, plain float64 arrays, ``A`` evaluates with tolerance) for replaying
witnesses and for cross-validating every explored path.
"""
import fractions
import importlib
import json
import math
import os
import re
import sys
import time
import traceback
import hashlib
import inspect
import copy
import warnings

import numpy as np
import z3

from . import core as S
from .core import SymNum, SymBool, SymArray, Ctx, is_sym

TOL = 1e-9

# ---------------------------------------------------------------------------
# module patching

MIR_MODULES = ['util', 'beat', 'onset', 'segment', 'chord', 'melody', 'multipitch', 'transcription',
               'transcription_velocity', 'tempo', 'key', 'pattern', 'hierarchy', 'alignment', 'separation', 'io']

_BUILTINS = {'float': S.sym_float, 'int': S.sym_int, 'min': S.sym_min, 'max': S.sym_max, 'sum': S.sym_sum,
             'round': S.sym_round}

_patched = {}       # modname -> {name: original or _MISSING}
_MISSING = object()
EXTRA_PATCHES = {}  # modname -> {global name: replacement}; filled by symx.stubs


def _mod(name):
    return importlib.import_module('mir_eval.' + name)


def patch_all(extra=None):
    """Rebind np/builtins (and registered stubs) in every mir_eval module."""
    unpatch_all()
    for mn in MIR_MODULES:
        m = _mod(mn)
        saved = {}
        repl = {'np': S.NP}
        repl.update(_BUILTINS)
        repl.update(EXTRA_PATCHES.get(mn, {}))
        if extra and mn in extra:
            repl.update(extra[mn])
        for k, v in repl.items():
            saved[k] = m.__dict__.get(k, _MISSING)
            m.__dict__[k] = v
        _patched[mn] = saved


def unpatch_all():
    for mn, saved in list(_patched.items()):
        m = _mod(mn)
        for k, v in saved.items():
            if v is _MISSING:
                m.__dict__.pop(k, None)
            else:
                m.__dict__[k] = v
    _patched.clear()


class unpatched:
    """Context manager: temporarily restore the real module globals (for concrete replay)."""

    def __enter__(self):
        self.saved = {mn: {k: _mod(mn).__dict__.get(k, _MISSING) for k in saved} for mn, saved in _patched.items()}
        self.orig = dict(_patched)
        for mn, saved in self.orig.items():
            m = _mod(mn)
            for k, v in saved.items():
                if v is _MISSING:
                    m.__dict__.pop(k, None)
                else:
                    m.__dict__[k] = v
        self.ctx = Ctx.cur
        Ctx.cur = None
        return self

    def __exit__(self, *a):
        for mn, cur_vals in self.saved.items():
            m = _mod(mn)
            for k, v in cur_vals.items():
                if v is _MISSING:
                    m.__dict__.pop(k, None)
                else:
                    m.__dict__[k] = v
        Ctx.cur = self.ctx
        return False


# ---------------------------------------------------------------------------
# concretisation of symbolic structures under a model

def _frac(model, e):
    v = model.eval(e, model_completion=True)
    v = z3.simplify(v)
    if z3.is_int_value(v):
        return fractions.Fraction(v.as_long())
    if z3.is_rational_value(v):
        return fractions.Fraction(v.numerator_as_long(), v.denominator_as_long())
    if z3.is_algebraic_value(v):
        a = v.approx(30)
        return fractions.Fraction(a.numerator_as_long(), a.denominator_as_long())
    raise S.Unsupported("model value %s" % v)


def conc_scalar(x, model):
    if isinstance(x, S.LogNum):
        return float(2.0 ** float(_frac(model, x.l)))
    if isinstance(x, SymNum):
        f = _frac(model, x.e)
        if x.isint and f.denominator == 1:
            return int(f)
        return float(f)
    if isinstance(x, SymBool):
        return bool(z3.is_true(model.eval(x.e, model_completion=True)))
    return x


def concretize(obj, model):
    if is_sym(obj):
        return conc_scalar(obj, model)
    if isinstance(obj, SymArray):
        p = obj.view(np.ndarray)
        vals = [conc_scalar(v, model) for v in p.flat]
        if p.size == 0:
            return np.zeros(p.shape, dtype=getattr(obj, '_dtype_hint', float))
        if all(isinstance(v, (bool, np.bool_)) for v in vals):
            dt = bool
        elif all(isinstance(v, (int, np.integer)) and not isinstance(v, (bool, np.bool_)) for v in vals):
            dt = np.int64
        else:
            dt = np.float64
        return np.array(vals, dtype=dt).reshape(p.shape)
    if isinstance(obj, np.ndarray):
        return obj.copy()
    if isinstance(obj, list):
        return [concretize(x, model) for x in obj]
    if isinstance(obj, tuple):
        return tuple(concretize(x, model) for x in obj)
    if isinstance(obj, dict):
        return {k: concretize(v, model) for k, v in obj.items()}
    if hasattr(obj, '__concretize__'):
        return obj.__concretize__(model)
    return obj


def to_json(obj):
    if isinstance(obj, np.ndarray):
        return {"__nd__": obj.tolist(), "dtype": str(obj.dtype), "shape": list(obj.shape)}
    if isinstance(obj, (np.floating, float)):
        f = float(obj)
        if math.isnan(f):
            return {"__f__": "nan"}
        if math.isinf(f):
            return {"__f__": "inf" if f > 0 else "-inf"}
        return f
    if isinstance(obj, (np.bool_, bool)):
        return bool(obj)
    if isinstance(obj, (np.integer, int)):
        return int(obj)
    if isinstance(obj, tuple):
        return {"__tuple__": [to_json(x) for x in obj]}
    if isinstance(obj, list):
        return [to_json(x) for x in obj]
    if isinstance(obj, dict):
        return {"__dict__": [[to_json(k), to_json(v)] for k, v in obj.items()]}
    if obj is None or isinstance(obj, str):
        return obj
    return {"__repr__": repr(obj)}


def from_json(o):
    if isinstance(o, dict):
        if "__nd__" in o:
            a = np.array(o["__nd__"], dtype=o["dtype"])
            return a.reshape(o["shape"])
        if "__f__" in o:
            return float(o["__f__"])
        if "__tuple__" in o:
            return tuple(from_json(x) for x in o["__tuple__"])
        if "__dict__" in o:
            return {from_json(k): from_json(v) for k, v in o["__dict__"]}
        if "__repr__" in o:
            return o["__repr__"]
    if isinstance(o, list):
        return [from_json(x) for x in o]
    return o


def jsonable(v):
    """best-effort JSON rendering of observed values for evidence samples"""
    try:
        return to_json(v)
    except Exception:
        return repr(v)


# ---------------------------------------------------------------------------
# assertion API

class Failure(Exception):
    pass


def _isnum(x):
    return isinstance(x, (int, float, np.number, SymNum)) and not isinstance(x, (bool, np.bool_))


class SecondCallRaised(Exception):
    pass


class ABase:
    sym = False

    # logical combinators usable in both modes
    def And(self, *cs):
        r = True
        for c in cs:
            r = S._land(r, c) if (is_sym(r) or is_sym(c)) else (bool(r) and bool(c))
        return r

    def Or(self, *cs):
        r = False
        for c in cs:
            r = S._lor(r, c) if (is_sym(r) or is_sym(c)) else (bool(r) or bool(c))
        return r

    def Not(self, c):
        return S._lnot(c) if is_sym(c) else (not bool(c))

    def Implies(self, a, b):
        return self.Or(self.Not(a), b)

    def Iff(self, a, b):
        if is_sym(a) or is_sym(b):
            return SymBool(S._zb(a) == S._zb(b))
        return bool(a) == bool(b)

    # exact comparators (no tolerance in concrete mode): for compare-only code
    def xle(self, a, b):
        return S._b_cmp('le')(a, b) if (is_sym(a) or is_sym(b)) else bool(a <= b)

    def xlt(self, a, b):
        return S._b_cmp('lt')(a, b) if (is_sym(a) or is_sym(b)) else bool(a < b)

    def xge(self, a, b):
        return self.xle(b, a)

    def xgt(self, a, b):
        return self.xlt(b, a)

    def xeq(self, a, b):
        return S._b_cmp('eq')(a, b) if (is_sym(a) or is_sym(b)) else bool(a == b)

    def second(self, f, what='the transformed call'):
        """Run f() - the second call of a relational job, made after the first one returned.  If it raises, that is itself a
        violation of the relation (the score did not stay the same: there is none): the requirement is recorded and the path ends."""
        st, res = self.call(f)
        if st != 'ok' and isinstance(res, (S.Unsupported, S.Budget)):
            raise res
        self.require(st == 'ok', 'relational:%s-returns-like-the-first' % what, got=(repr(res)[:160] if st != 'ok' else None))
        if st != 'ok':
            raise SecondCallRaised(repr(res)[:200])
        return res

    def call(self, f, *a, **k):
        """Call f; returns ('ok', value) or ('exc', exception)."""
        try:
            with warnings.catch_warnings():
                warnings.simplefilter('ignore')
                return 'ok', f(*a, **k)
        except Exception as ex:
            return 'exc', ex


class ASym(ABase):
    sym = True

    def __init__(self, ctx, runner):
        self.ctx = ctx
        self.runner = runner
        self.obs = []          # (name, value)
        self.reqs = []         # (site, z3 bool or python bool)

    # comparators: exact in the solver's arithmetic
    def le(self, a, b):
        return self._cmp(a, b, 'le')

    def ge(self, a, b):
        return self._cmp(b, a, 'le')

    def lt(self, a, b):
        return self._cmp(a, b, 'lt')

    def eq(self, a, b):
        return self._cmp(a, b, 'eq')

    def _cmp(self, a, b, op):
        if S._nonfinite(a) or S._nonfinite(b):
            if is_sym(a) or is_sym(b):
                return False
            a, b = float(a), float(b)
            if op == 'eq':
                return (a == b) or (math.isnan(a) and math.isnan(b))
            return {'le': a <= b, 'lt': a < b}[op]
        if not is_sym(a) and not is_sym(b):
            a, b = float(a), float(b)
            return {'le': a <= b + TOL, 'lt': a < b, 'eq': abs(a - b) <= TOL}[op]
        for x in (a, b):
            if isinstance(x, (float, np.floating)) and math.isfinite(float(x)) and float(x) != int(float(x)):
                # a rounded float64 constant meets an exact term: compare to the statement's 1e-9 tolerance
                d = S._b_sub(a, b)
                if op == 'eq':
                    return S._land(S._b_cmp('le')(d, TOL), S._b_cmp('ge')(d, -TOL))
                if op == 'le':
                    return S._b_cmp('le')(d, TOL)
        return S._b_cmp(op)(a, b)

    def finite(self, x):
        if is_sym(x):
            return True
        try:
            return bool(np.isfinite(x))
        except TypeError:
            return False

    def in01(self, x):
        return self.And(self.finite(x), self.le(0, x), self.le(x, 1))

    def observe(self, name, value):
        self.obs.append((name, value))

    def require(self, cond, site, **info):
        self.runner.obligation(self, cond, site, info)

    def reach(self, site):
        self.runner.reached(site)


class AConc(ABase):
    sym = False

    def __init__(self):
        self.obs = []
        self.reqs = []     # (site, bool, info)

    def le(self, a, b):
        return bool(a <= b + TOL)

    def ge(self, a, b):
        return bool(a + TOL >= b)

    def lt(self, a, b):
        return bool(a < b)

    def eq(self, a, b):
        try:
            fa, fb = float(a), float(b)
        except (TypeError, ValueError):
            return bool(a == b)
        if math.isnan(fa) and math.isnan(fb):
            return True
        if math.isinf(fa) or math.isinf(fb):
            return fa == fb
        return abs(fa - fb) <= TOL * max(1.0, abs(fa), abs(fb))

    def finite(self, x):
        try:
            return bool(np.isfinite(x))
        except TypeError:
            return False

    def in01(self, x):
        return self.finite(x) and self.le(0, x) and self.le(x, 1)

    def observe(self, name, value):
        self.obs.append((name, value))

    def require(self, cond, site, **info):
        self.reqs.append((site, bool(cond), info))

    def reach(self, site):
        pass


# ---------------------------------------------------------------------------
# jobs

class Job:
    def __init__(self, prop, name, build, body, fresh_empty=False, timeout_s=600, extra_patches=None,
                 max_decisions=100000, solver_timeout_ms=30000, funcs=(), bounds=None, exc_policy='skip',
                 lattice=10, xval=True, exact_floats=True, lstsq_exact=False):
        self.lstsq_exact = lstsq_exact  # np.linalg.lstsq solutions satisfy the normal equations (default: arbitrary reals)
        self.prop = prop
        self.name = name
        self.build = build
        self.body = body
        self.fresh_empty = fresh_empty
        self.timeout_s = timeout_s
        self.extra_patches = extra_patches
        self.max_decisions = max_decisions
        self.solver_timeout_ms = solver_timeout_ms
        self.funcs = list(funcs)        # qualified names of the real functions encoded
        self.bounds = bounds or {}
        self.exc_policy = exc_policy    # 'skip': exception paths are C14's business; 'violation': body handles
        self.lattice = lattice          # witnesses sought on the 2^-lattice grid first
        self.xval = xval
        self.exact_floats = exact_floats   # False: inputs are not all dyadic; float replay may differ at threshold coincidences


class JobResult:
    def __init__(self, job):
        self.prop = job.prop
        self.job = job.name
        self.paths = 0
        self.forks = 0
        self.checks = 0
        self.solver_s = 0.0
        self.obligations = 0
        self.discharged = 0
        self.sat = 0
        self.unknown = 0
        self.xval_ok = 0
        self.xval_inexact = 0
        self.xval_skipped = 0
        self.xval_bad = []
        self.violations = []       # dicts: site, inputs(json), observed, info
        self.unconfirmed = []
        self.exc_paths = {}        # exception type name -> count
        self.exc_msgs = []
        self.unsupported = []
        self.budget = 0
        self.sites = {}            # site -> [reached, discharged]
        self.samples = []
        self.wall = 0.0
        self.complete = True
        self.leftover = []
        self.errors = []
        self.xc = dict(checked=0, agree=0, inconclusive=0, seconds=0.0)   # second-opinion solver runs on discharged obligations
        self.xc_disagree = []

    def merge(self, o):
        for k in ('paths', 'forks', 'checks', 'solver_s', 'obligations', 'discharged', 'sat', 'unknown', 'xval_ok',
                  'xval_inexact', 'xval_skipped', 'budget', 'wall'):
            setattr(self, k, getattr(self, k) + getattr(o, k))
        self.xval_bad += o.xval_bad
        for k in self.xc:
            self.xc[k] += o.xc[k]
        self.xc_disagree += o.xc_disagree
        self.exc_msgs = (self.exc_msgs + o.exc_msgs)[:4]
        self.violations += o.violations
        self.unconfirmed += o.unconfirmed
        for k, v in o.exc_paths.items():
            self.exc_paths[k] = self.exc_paths.get(k, 0) + v
        self.unsupported += o.unsupported
        for k, v in o.sites.items():
            s = self.sites.setdefault(k, [0, 0])
            s[0] += v[0]
            s[1] += v[1]
        self.samples = (self.samples + o.samples)[:3]
        self.complete = self.complete and o.complete
        self.errors += o.errors


CROSSCHECK = False


def _is_real(t):
    return z3.is_arith(t) and t.sort() == z3.RealSort()


def _strong(e, m, pos):
    """a formula that implies `e` (pos) or `Not(e)` (not pos), with real comparisons strengthened by the margin m"""
    if not z3.is_app(e):
        return e if pos else z3.Not(e)
    k = e.decl().kind()
    ch = e.children()
    if k == z3.Z3_OP_NOT:
        return _strong(ch[0], m, not pos)
    if k == z3.Z3_OP_AND:
        parts = [_strong(c, m, pos) for c in ch]
        return z3.And(*parts) if pos else z3.Or(*parts)
    if k == z3.Z3_OP_OR:
        parts = [_strong(c, m, pos) for c in ch]
        return z3.Or(*parts) if pos else z3.And(*parts)
    if k == z3.Z3_OP_IMPLIES:
        a, b = ch
        return z3.Or(_strong(a, m, False), _strong(b, m, True)) if pos else z3.And(_strong(a, m, True), _strong(b, m, False))
    if k in (z3.Z3_OP_LE, z3.Z3_OP_LT, z3.Z3_OP_GE, z3.Z3_OP_GT) and _is_real(ch[0]) and _is_real(ch[1]):
        a, b = ch
        if k in (z3.Z3_OP_GE, z3.Z3_OP_GT):
            a, b = b, a
        # now e is a <= b or a < b
        return (a + m <= b) if pos else (a >= b + m)
    if k == z3.Z3_OP_EQ and _is_real(ch[0]) and _is_real(ch[1]):
        a, b = ch
        return e if pos else z3.Or(a + m <= b, b + m <= a)
    if k == z3.Z3_OP_DISTINCT and len(ch) == 2 and _is_real(ch[0]) and _is_real(ch[1]):
        a, b = ch
        return z3.Or(a + m <= b, b + m <= a) if pos else (a == b)
    return e if pos else z3.Not(e)


class Runner:
    """Runs one job (or a slice of it given decision prefixes) in this process."""

    def __init__(self, job):
        self.job = job
        self.res = JobResult(job)
        self.inputs = None
        self.cur_model_inputs = None

    # -- called by ASym
    def reached(self, site):
        self.res.sites.setdefault(site, [0, 0])[0] += 1

    def obligation(self, A, cond, site, info):
        res = self.res
        ctx = A.ctx
        st = res.sites.setdefault(site, [0, 0])
        st[0] += 1
        res.obligations += 1
        if isinstance(cond, (bool, np.bool_)):
            zc = z3.BoolVal(bool(cond))
        else:
            raw = S._zb(cond)
            ctx.activate(raw)
            zc = z3.simplify(raw)
        rec = [site, zc, False]
        A.reqs.append(rec)
        if z3.is_true(zc):
            res.discharged += 1
            st[1] += 1
            rec[2] = True
            return
        neg = z3.Not(zc)
        ctx.activate(zc)
        try:
            sat = ctx.check(neg)
        except S.Unsupported:
            res.unknown += 1          # (Ctx.check has already retried once with a four times longer limit)
            res.errors.append("unknown at %s" % site)
            return
        if not sat:
            res.discharged += 1
            st[1] += 1
            rec[2] = True
            self._second_opinion(ctx, neg, site)
            return
        res.sat += 1
        # witness: try lattice first, then any model
        tried = []
        for model, exact in self._witness_models(ctx, neg):
            cin = concretize(self.inputs, model)
            ok, observed = self._replay_fails(cin, site)
            tried.append(cin)
            if ok:
                res.violations.append(dict(site=site, inputs=to_json(cin), observed=observed, info=jsonable(info), exact=exact,
                                           job=self.job.name, prop=self.job.prop))
                return
        for model in self._margin_models(ctx, neg):
            pin = concretize(self.inputs, model)
            ok, observed = self._replay_fails(pin, site)
            tried.append(pin)
            if ok:
                res.violations.append(dict(site=site, inputs=to_json(pin), observed=observed, info=jsonable(info), exact=False,
                                           job=self.job.name, prop=self.job.prop, note="interior witness"))
                return
        # last resort: small perturbations of the solver's witness (de-gridding: values with many decimals, broken ties).
        # The perturbation is applied to the *input variables* and is only used if every assumption of the job still holds,
        # and it counts only if the same requirement then fails on the real code.
        for model in self._perturbed_models(ctx, neg):
            pin = concretize(self.inputs, model)
            ok, observed = self._replay_fails(pin, site)
            if ok:
                res.violations.append(dict(site=site, inputs=to_json(pin), observed=observed, info=jsonable(info), exact=False,
                                           job=self.job.name, prop=self.job.prop, note="perturbed solver witness"))
                return
        res.unconfirmed.append(dict(site=site, inputs=to_json(tried[-1]) if tried else None, job=self.job.name))

    # -- second opinion: a sample of the discharged (unsat) queries is re-decided by two other solver builds
    XC_SOLVERS = (('z3-4.8.12', ['/usr/bin/z3', '-in', '-T:20']), ('cvc5-1.0', ['cvc5', '--lang=smt2', '--tlimit=20000']))

    def _second_opinion(self, ctx, neg, site):
        if not CROSSCHECK:
            return
        self._xc_seen = getattr(self, '_xc_seen', 0) + 1
        # the first non-trivial discharged obligation of every run of a job, then every 250th
        if self._xc_seen != 1 and self._xc_seen % 250:
            return
        import subprocess
        s = ctx.solver
        s.push()
        try:
            s.add(neg)
            txt = s.to_smt2()
        finally:
            s.pop()
        res = self.res
        t0 = time.time()
        res.xc['checked'] += 1
        verdicts = {}
        for nm, cmd in self.XC_SOLVERS:
            try:
                r = subprocess.run(cmd, input=txt, capture_output=True, text=True, timeout=40)
                out = r.stdout.strip().splitlines()
                verdicts[nm] = out[0].strip() if out and '(error' not in r.stdout else 'error'
            except Exception as ex:
                verdicts[nm] = 'error'
        res.xc['seconds'] += time.time() - t0
        if any(v == 'sat' for v in verdicts.values()):
            res.xc_disagree.append(dict(site=site, job=self.job.name, verdicts=verdicts, smt2=txt))
        elif any(v == 'unsat' for v in verdicts.values()):
            res.xc['agree'] += 1
        else:
            res.xc['inconclusive'] += 1

    def _witness_models(self, ctx, extra=None):
        s = ctx.solver
        k = self.job.lattice
        if ctx.uf_apps:
            # uninterpreted exp/log/sqrt values in a model need not be the true ones: prefer a witness in which every
            # application's argument sits on an anchor point, where the axioms pin the exact value
            s.push()
            try:
                if extra is not None:
                    s.add(extra)
                for nm, apps in ctx.uf_apps.items():
                    anchors = [a for a, _ in S._ANCHORS.get(nm, ())]
                    if not anchors:
                        continue
                    for arg, res in apps:
                        s.add(z3.Or(*[arg == z3.RealVal(a) for a in anchors]))
                s.set("timeout", 10000)
                if s.check() == z3.sat:
                    yield s.model(), False
            finally:
                s.set("timeout", self.job.solver_timeout_ms)
                s.pop()
        if k:
            s.push()
            try:
                if extra is not None:
                    s.add(extra)
                for nm, v in ctx.inputs.items():
                    if v.sort() == z3.RealSort():
                        iv = z3.Int("lat!" + nm)
                        s.add(v * (2 ** k) == z3.ToReal(iv))
                s.set("timeout", 5000)
                r = s.check()
                if r == z3.sat:
                    yield s.model(), True
            finally:
                s.set("timeout", self.job.solver_timeout_ms)
                s.pop()
        s.push()
        try:
            if extra is not None:
                s.add(extra)
            if s.check() == z3.sat:
                yield s.model(), False
        finally:
            s.pop()

    def _margin_models(self, ctx, extra):
        """witnesses that sit in the interior of the path: every comparison decided on the path, and the violated
        requirement itself, is strengthened by a margin (a < b becomes a + m <= b, a != b becomes |a - b| >= m), so that
        float64 replay cannot fall on the other side of a near-tie the solver happened to pick."""
        s = ctx.solver
        for m in (fractions.Fraction(1, 1000), fractions.Fraction(1, 10 ** 6), fractions.Fraction(1, 10 ** 8)):
            s.push()
            try:
                mv = z3.RealVal(m)
                s.add(_strong(extra, mv, True))
                for lit in ctx.lits:
                    s.add(_strong(lit, mv, True))
                s.set("timeout", 5000)
                if s.check() == z3.sat:
                    yield s.model()
            except z3.Z3Exception:
                pass
            finally:
                s.set("timeout", self.job.solver_timeout_ms)
                s.pop()

    def _perturbed_models(self, ctx, extra):
        s = ctx.solver
        s.push()
        try:
            s.add(extra)
            if s.check() != z3.sat:
                return
            base = s.model()
        except z3.Z3Exception:
            return
        finally:
            s.pop()
        reals = [(nm, v) for nm, v in ctx.inputs.items() if v.sort() == z3.RealSort()]
        if not reals:
            return
        for eps in (fractions.Fraction(1, 3 * 10 ** 9), fractions.Fraction(7, 9 * 10 ** 11), fractions.Fraction(-1, 7 * 10 ** 10)):
            pairs = []
            for k, (nm, v) in enumerate(reals):
                val = _frac(base, v) + eps * (k + 1)
                pairs.append((v, z3.RealVal(val)))
            others = [(v, base.eval(v, model_completion=True)) for nm, v in ctx.inputs.items() if v.sort() != z3.RealSort()]
            ok = True
            for a_ in ctx.assumptions:
                if not z3.is_true(z3.simplify(z3.substitute(a_, *(pairs + others)))):
                    ok = False
                    break
            if not ok:
                continue
            t = z3.Solver()
            for v, val in pairs + others:
                t.add(v == val)
            if t.check() == z3.sat:
                yield t.model()

    def _other_model(self, ctx, model):
        s = ctx.solver
        s.push()
        try:
            for nm, v in ctx.inputs.items():
                if v.sort() in (z3.RealSort(), z3.IntSort()):
                    s.add(v != model.eval(v, model_completion=True))
            s.set("timeout", 5000)
            if s.check() == z3.sat:
                return s.model()
            return None
        finally:
            s.set("timeout", self.job.solver_timeout_ms)
            s.pop()

    def _replay_fails(self, cin, site):
        """Run the body concretely on the unpatched code; True iff `site` fails there."""
        A = AConc()
        raised = None
        with unpatched():
            try:
                with warnings.catch_warnings():
                    warnings.simplefilter('ignore')
                    self.job.body(A, _copy_inputs(cin))
            except Exception as ex:
                raised = "replay raised %s: %s" % (type(ex).__name__, ex)
        # (a requirement that failed before a later part of the body raised still counts)
        for s_, ok, info in A.reqs:
            if s_ == site and not ok:
                return True, dict(obs=[[n, jsonable(v)] for n, v in A.obs][:40], info=jsonable(info))
        return False, raised

    # -- one path
    def path(self, ctx):
        job = self.job
        r = self.res
        # counters as they stood before this path (a path that is retried must not be counted twice)
        self._before = (r.obligations, r.discharged, r.sat, r.unknown, copy.deepcopy(r.sites), len(r.violations), len(r.unconfirmed), len(r.errors))
        S.NP.fresh_empty = job.fresh_empty
        S.NP.linalg.exact = job.lstsq_exact
        live = job.build(ctx)
        # the code under test may modify its arguments: witnesses are taken from a pristine copy (same terms)
        self.inputs = _copy_inputs(live)
        A = ASym(ctx, self)
        exc = None
        try:
            with warnings.catch_warnings():
                warnings.simplefilter('ignore')
                job.body(A, live)
        except Exception as ex:
            exc = ex
        return A, exc

    def on_path(self, pr, ctx):
        res = self.res
        res.paths += 1
        res.forks += pr.decisions
        res.checks += pr.checks
        res.solver_s += pr.solver_s
        if pr.status == 'infeasible':
            return
        if pr.status == 'unsupported':
            res.unsupported.append(pr.detail)
            return
        if pr.status == 'budget':
            # possible non-termination: replay the path's witness on the real code under a time limit
            model = ctx.model
            looped = False
            if model is not None and self.inputs is not None:
                try:
                    cin = concretize(self.inputs, model)
                    AC = AConc()
                    with unpatched():
                        try:
                            with S._Alarm(10):
                                with warnings.catch_warnings():
                                    warnings.simplefilter('ignore')
                                    self.job.body(AC, _copy_inputs(cin))
                        except S.Budget:
                            looped = True
                        except Exception:
                            pass
                    if looped:
                        res.violations.append(dict(site='nontermination', inputs=to_json(cin), observed='the real code did not finish within 10 s',
                                                   info=None, exact=False, job=self.job.name, prop=self.job.prop))
                        return
                except Exception:
                    pass
            if 'wall-clock' in (pr.detail or '') and getattr(pr, 'first_attempt', False):
                res.paths -= 1
                if getattr(self, '_before', None) is not None:
                    (res.obligations, res.discharged, res.sat, res.unknown, res.sites, nv, nu, ne) = self._before
                    del res.violations[nv:], res.unconfirmed[nu:], res.errors[ne:]
                return 'retry'
            res.budget += 1
            return
        A, exc = pr.value
        if exc is not None:
            nm = type(exc).__name__
            res.exc_paths[nm] = res.exc_paths.get(nm, 0) + 1
            if len(res.exc_msgs) < 4 and not any(m.startswith(nm) and str(exc)[:40] in m for m in res.exc_msgs):
                res.exc_msgs.append("%s: %s" % (nm, str(exc)[:160]))
            if self.job.exc_policy != 'skip':
                res.errors.append("uncaught %s: %s" % (nm, str(exc)[:200]))
        if not self.job.xval:
            return
        # cross-validate this path against the real code
        Ctx.cur = ctx
        try:
            cached = ctx.model
            try:
                models = list(self._witness_models(ctx))
            except (S.Unsupported, z3.Z3Exception):
                models = []
            if not models and cached is not None:
                models = [(cached, False)]      # the model that steered the last decision of this path
            if not models:
                res.xval_skipped += 1        # the solver could not produce a witness for this (feasible) path within its limit
                return
            model, exact = models[0]
            bad = None
            for attempt in range(3):
                cin = concretize(self.inputs, model)
                AC = AConc()
                cexc = None
                with unpatched():
                    try:
                        with warnings.catch_warnings():
                            warnings.simplefilter('ignore')
                            self.job.body(AC, _copy_inputs(cin))
                    except Exception as ex:
                        cexc = ex
                if (exc is None) != (cexc is None) or (exc is not None and type(exc).__name__ != type(cexc).__name__):
                    bad = "exception mismatch: symbolic %r vs real %r" % (exc, cexc)
                else:
                    bad = self._compare_obs(A, AC, model)
                if bad is None or (exact and self.job.exact_floats):
                    break
                # inexact witness (non-dyadic values / threshold coincidence in floats): try a different model
                model2 = self._other_model(ctx, model)
                if model2 is None:
                    break
                model = model2
            if bad is None:
                res.xval_ok += 1
                if len(res.samples) < 3:
                    res.samples.append(dict(job=self.job.name, inputs=to_json(cin),
                                            observed=[[n, jsonable(v)] for n, v in AC.obs][:12],
                                            exception=type(cexc).__name__ if cexc else None,
                                            path_decisions=len(pr.prefix)))
            elif (exact and self.job.exact_floats) or bad.startswith('exception mismatch') or bad.startswith('site mismatch'):
                res.xval_bad.append(dict(job=self.job.name, why=bad, inputs=to_json(cin)))
            else:
                res.xval_inexact += 1
        finally:
            Ctx.cur = None

    def _compare_obs(self, A, AC, model):
        if len(A.obs) != len(AC.obs):
            return "observation count %d vs %d" % (len(A.obs), len(AC.obs))
        for (n1, v1), (n2, v2) in zip(A.obs, AC.obs):
            if n1 != n2:
                return "observation order %s vs %s" % (n1, n2)
            if _has_uf(v1):
                continue        # value depends on an uninterpreted transcendental: the model's function values need not be the true ones
            c1 = concretize(v1, model)
            if not _close(c1, v2):
                return "%s: symbolic %r vs real %r" % (n1, c1, v2)
        # both modes must state the same requirements (a witness is confirmed by the same site failing concretely)
        ssites = set(r_[0] for r_ in A.reqs)
        csites = set(r_[0] for r_ in AC.reqs)
        if ssites != csites:
            return "site mismatch: only symbolic %s / only concrete %s" % (sorted(ssites - csites)[:3], sorted(csites - ssites)[:3])
        # requirement truth values
        creq = {}
        for s_, ok, info in AC.reqs:
            creq.setdefault(s_, []).append(ok)
        # a requirement the solver discharged for the whole path must hold on the real code for the witness
        sreq = {}
        for s_, zc, ok in A.reqs:
            sreq.setdefault(s_, []).append(ok)
        for s_ in sreq:
            if s_ in creq and len(creq[s_]) == len(sreq[s_]):
                for a, b in zip(sreq[s_], creq[s_]):
                    if a and not b:
                        return "requirement %s discharged symbolically but fails on the real code" % s_
        return None

    def run(self, prefixes=None, deadline=None):
        t0 = time.time()
        job = self.job
        patch_all(job.extra_patches)
        try:
            _, complete, left = S.explore(self.path, deadline=deadline, timeout_ms=job.solver_timeout_ms,
                                          max_decisions=job.max_decisions, prefixes=prefixes, on_path=self.on_path)
        finally:
            unpatch_all()
            S.NP.fresh_empty = False
            S.NP.linalg.exact = False
        self.res.complete = complete
        self.res.leftover = [tuple(p) for p in left]
        self.res.wall = time.time() - t0
        return self.res


def _expr_has_uf(e, seen):
    if e.get_id() in seen:
        return False
    seen.add(e.get_id())
    if z3.is_app(e):
        d = e.decl()
        if d.kind() == z3.Z3_OP_UNINTERPRETED and e.num_args() > 0:
            return True
        for ch in e.children():
            if _expr_has_uf(ch, seen):
                return True
    return False


def _has_uf(v):
    if isinstance(v, (SymNum, SymBool)):
        return _expr_has_uf(v.e, set())
    if isinstance(v, SymArray):
        return any(_has_uf(x) for x in v.view(np.ndarray).flat)
    if isinstance(v, (list, tuple)):
        return any(_has_uf(x) for x in v)
    return False


def _perturb(x, eps, _i=[0]):
    """copy of a concrete input structure with every float array element nudged by a different small amount"""
    if isinstance(x, np.ndarray):
        if x.dtype.kind == 'f' and x.size:
            k = np.arange(1, x.size + 1, dtype=float).reshape(x.shape)
            return x + eps * k
        return x.copy()
    if isinstance(x, list):
        return [_perturb(v, eps) for v in x]
    if isinstance(x, tuple):
        return tuple(_perturb(v, eps) for v in x)
    if isinstance(x, dict):
        return {k: _perturb(v, eps) for k, v in x.items()}
    return x


def _copy_inputs(x):
    if isinstance(x, np.ndarray):
        return x.copy()
    if isinstance(x, list):
        return [_copy_inputs(v) for v in x]
    if isinstance(x, tuple):
        return tuple(_copy_inputs(v) for v in x)
    if isinstance(x, dict):
        return {k: _copy_inputs(v) for k, v in x.items()}
    return x


def _close(a, b, tol=1e-6):
    if isinstance(a, (list, tuple)) and isinstance(b, (list, tuple, np.ndarray)):
        return len(a) == len(b) and all(_close(x, y, tol) for x, y in zip(a, b))
    if isinstance(a, np.ndarray) or isinstance(b, np.ndarray):
        a = np.asarray(a)
        b = np.asarray(b)
        if a.shape != b.shape:
            return False
        if a.dtype == object or b.dtype == object:
            return all(_close(x, y, tol) for x, y in zip(a.reshape(-1).tolist(), b.reshape(-1).tolist()))
        return bool(np.allclose(a.astype(float), b.astype(float), rtol=tol, atol=tol, equal_nan=True))
    if isinstance(a, dict) and isinstance(b, dict):
        return list(a.keys()) == list(b.keys()) and all(_close(a[k], b[k], tol) for k in a)
    if a is None or b is None or isinstance(a, str) or isinstance(b, str):
        return a == b
    try:
        fa, fb = float(a), float(b)
    except (TypeError, ValueError):
        return a == b
    if math.isnan(fa) or math.isnan(fb):
        return math.isnan(fa) and math.isnan(fb)
    if math.isinf(fa) or math.isinf(fb):
        return fa == fb
    return abs(fa - fb) <= tol * max(1.0, abs(fa), abs(fb))


# ---------------------------------------------------------------------------
# replay of a stored violation (fresh interpreter, no patching)

def replay_file(path, jobs):
    with open(path) as f:
        rec = json.load(f)
    job = None
    for j in jobs:
        if j.name == rec['job']:
            job = j
    if job is None:
        print("replay: job %s not found" % rec['job'])
        return 2
    cin = from_json(rec['inputs'])
    A = AConc()
    try:
        with S._Alarm(30):
            with warnings.catch_warnings():
                warnings.simplefilter('ignore')
                job.body(A, cin)
    except S.Budget:
        print("replay %s: the real code did not terminate within 30 s" % rec['job'])
        return 1 if rec['site'] == 'nontermination' else 2
    failed = [s for s, ok, info in A.reqs if not ok]
    print("replay %s site=%s -> failing sites: %s" % (rec['job'], rec['site'], failed))
    for n, v in A.obs[:40]:
        print("  obs %s = %r" % (n, v))
    return 1 if rec['site'] in failed else 0


def source_hashes(funcs):
    out = {}
    for q in funcs:
        try:
            modn, fn = q.rsplit('.', 1)
            m = importlib.import_module('mir_eval.' + modn) if not modn.startswith('mir_eval') else importlib.import_module(modn)
            obj = getattr(m, fn)
            obj = getattr(obj, '__wrapped__', obj)
            src = inspect.getsource(obj)
            out[q] = hashlib.sha256(src.encode()).hexdigest()[:16]
        except Exception as ex:
            out[q] = "unavailable: %s" % type(ex).__name__
    return out
