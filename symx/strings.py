"""Symbolic strings of concrete length backed by z3 String terms.

`SymStr` is a ``str`` subclass whose C-level payload is an opaque marker; every
method mir_eval uses is overridden to build z3 terms (merge) or to fork.  Markers
survive C-level formatting/joining (``"%s" % s``, ``",".join(...)``) and are
re-expanded into the symbolic term when the result meets a SymStr operation again.
"""
import itertools
import re
import re._constants as sc
import re._parser as sp

import z3

from . import core as S
from .core import Ctx, SymBool, PathAbort, Unsupported, cur

_REG = {}
_CNT = itertools.count()
_MARK = re.compile("\x00(\\d+)\x00")
WHITESPACE = " \t\n\r\x0b\x0c\x1c\x1d\x1e\x1f\x85\xa0"


def unescape(v):
    return re.sub(r"\\u\{([0-9a-fA-F]+)\}", lambda m: chr(int(m.group(1), 16)), v)


def lift(x):
    """any str (plain, plain-with-markers, SymStr) -> (z3 seq expr, concrete length)"""
    if isinstance(x, SymStr):
        return x.e, x.n
    if isinstance(x, str):
        parts, n, pos = [], 0, 0
        for m in _MARK.finditer(x):
            if m.start() > pos:
                parts.append(z3.StringVal(x[pos:m.start()]))
                n += m.start() - pos
            e, k = _REG[int(m.group(1))]
            parts.append(e)
            n += k
            pos = m.end()
        if pos < len(x):
            parts.append(z3.StringVal(x[pos:]))
            n += len(x) - pos
        if not parts:
            return z3.StringVal(""), 0
        return (parts[0] if len(parts) == 1 else z3.Concat(*parts)), n
    raise Unsupported("str lift %r" % type(x))


def has_marker(x):
    return isinstance(x, str) and not isinstance(x, SymStr) and _MARK.search(x) is not None


def sym(x):
    if isinstance(x, SymStr):
        return x
    if has_marker(x):
        return SymStr(*lift(x))
    return x


class SymStr(str):
    def __new__(cls, e, n):
        i = next(_CNT)
        self = str.__new__(cls, "\x00%d\x00" % i)
        self.e = z3.simplify(e)
        self.n = n
        _REG[i] = (self.e, n)
        return self

    def __len__(self):
        return self.n

    def __bool__(self):
        return self.n > 0

    def __repr__(self):
        return "SymStr(%s,%d)" % (self.e, self.n)

    def __str__(self):
        return "".join(str.__iter__(self))

    def __format__(self, spec):
        return SymStr.__str__(self)

    def __concretize__(self, model):
        return unescape(model.eval(self.e, model_completion=True).as_string())

    def conc(self):
        """enumerate feasible values by forking"""
        c = cur()
        if z3.is_string_value(self.e):
            return unescape(self.e.as_string())
        while True:
            m = c.get_model()
            v = unescape(m.eval(self.e, model_completion=True).as_string())
            if c.decide(self.e == z3.StringVal(v)):
                return v
            c.model = None

    def __hash__(self):
        return hash(self.conc())

    def __eq__(self, o):
        if not isinstance(o, str):
            return False
        oe, on = lift(o)
        if on != self.n:
            return False
        return SymBool(self.e == oe)

    def __ne__(self, o):
        r = self.__eq__(o)
        return (not r) if isinstance(r, bool) else ~r

    def __contains__(self, sub):
        se, sn = lift(sub)
        if sn > self.n:
            return False
        return cur().decide(z3.Contains(self.e, se))

    def __add__(self, o):
        oe, on = lift(o)
        return SymStr(z3.Concat(self.e, oe), self.n + on)

    def __radd__(self, o):
        oe, on = lift(o)
        return SymStr(z3.Concat(oe, self.e), self.n + on)

    def __mod__(self, o):
        raise Unsupported("SymStr % formatting")

    def __getitem__(self, i):
        if isinstance(i, slice):
            a, b, st = i.indices(self.n)
            if st != 1:
                raise Unsupported("SymStr slice step")
            return SymStr(z3.SubString(self.e, a, max(0, b - a)), max(0, b - a))
        if i < 0:
            i += self.n
        if not 0 <= i < self.n:
            raise IndexError("string index out of range")
        return SymStr(z3.SubString(self.e, i, 1), 1)

    def __iter__(self):
        for i in range(self.n):
            yield self[i]

    def startswith(self, p, *a):
        pe, pn = lift(p)
        if pn > self.n:
            return False
        return cur().decide(z3.PrefixOf(pe, self.e))

    def endswith(self, p, *a):
        pe, pn = lift(p)
        if pn > self.n:
            return False
        return cur().decide(z3.SuffixOf(pe, self.e))

    def count(self, c, *a):
        if len(c) != 1:
            raise Unsupported("SymStr.count of a multi-character string")
        return sum(1 for i in range(self.n) if cur().decide(self[i].e == z3.StringVal(c)))

    def _is_in(self, i, chars):
        ch = self[i].e
        if chars is None:
            chars = WHITESPACE
        return cur().decide(z3.Or([ch == z3.StringVal(c) for c in chars]))

    def strip(self, chars=None):
        a, b = 0, self.n
        while a < b and self._is_in(a, chars):
            a += 1
        while b > a and self._is_in(b - 1, chars):
            b -= 1
        return self[a:b]

    def lstrip(self, chars=None):
        a = 0
        while a < self.n and self._is_in(a, chars):
            a += 1
        return self[a:self.n]

    def rstrip(self, chars=None):
        b = self.n
        while b > 0 and self._is_in(b - 1, chars):
            b -= 1
        return self[0:b]

    def split(self, sep=None, maxsplit=-1):
        if sep is None:
            parts, i = [], 0
            while True:
                while i < self.n and self._is_in(i, None):
                    i += 1
                if i >= self.n:
                    break
                if maxsplit >= 0 and len(parts) >= maxsplit:
                    parts.append(self[i:self.n].rstrip())
                    break
                j = i
                while j < self.n and not self._is_in(j, None):
                    j += 1
                parts.append(self[i:j])
                i = j
            return parts
        if len(sep) != 1:
            raise Unsupported("SymStr.split with a multi-character separator")
        parts, start = [], 0
        for i in range(self.n):
            if maxsplit >= 0 and len(parts) >= maxsplit:
                break
            if cur().decide(self[i].e == z3.StringVal(sep)):
                parts.append(self[start:i])
                start = i + 1
        parts.append(self[start:self.n])
        return parts

    def lower(self):
        if self.n == 0:
            return self
        cs = []
        for i in range(self.n):
            c = z3.StrToCode(self[i].e)
            cs.append(z3.StrFromCode(z3.If(z3.And(c >= 65, c <= 90), c + 32, c)))
        return SymStr(z3.Concat(*cs) if len(cs) > 1 else cs[0], self.n)

    def join(self, it):
        raise Unsupported("SymStr.join")


def sym_str(x=""):
    return x if isinstance(x, str) else str(x)


def string_input(ctx, name, n, lo=9, hi=126):
    """a free string of concrete length n over the code points lo..hi"""
    s = z3.String(name)
    ctx.inputs[name] = s
    ctx.add(z3.Length(s) == n)
    for i in range(n):
        c = z3.StrToCode(z3.SubString(s, i, 1))
        ctx.add(c >= lo, c <= hi)
    return SymStr(s, n)


# ---------------------------------------------------------------- regex translation

def rx_to_z3(pattern, dollar_matches_before_newline=True):
    """sre parse tree -> z3 regex (language of full matches by pattern.match with ^...$ anchors)."""
    def seq(items):
        parts = [p for p in (node(op, av) for op, av in items) if p is not None]
        if not parts:
            return z3.Re("")
        return parts[0] if len(parts) == 1 else z3.Concat(*parts)

    def node(op, av):
        if op is sc.LITERAL:
            return z3.Re(chr(av))
        if op is sc.SUBPATTERN:
            return seq(av[3])
        if op is sc.BRANCH:
            alts = [seq(a) for a in av[1]]
            return alts[0] if len(alts) == 1 else z3.Union(*alts)
        if op is sc.IN:
            alts = []
            for o, a in av:
                if o is sc.LITERAL:
                    alts.append(z3.Re(chr(a)))
                elif o is sc.RANGE:
                    alts.append(z3.Range(chr(a[0]), chr(a[1])))
                else:
                    raise Unsupported("regex class item %r" % (o,))
            return alts[0] if len(alts) == 1 else z3.Union(*alts)
        if op is sc.MAX_REPEAT:
            lo, hi, sub = av
            r = seq(sub)
            if lo == 0 and hi == sc.MAXREPEAT:
                return z3.Star(r)
            if lo == 1 and hi == sc.MAXREPEAT:
                return z3.Plus(r)
            if lo == 0 and hi == 1:
                return z3.Option(r)
            return z3.Loop(r, lo, hi)
        if op is sc.AT and av is sc.AT_BEGINNING:
            return None
        raise Unsupported("regex construct %r" % ((op, av),))
    items = list(sp.parse(pattern))
    kind = None
    if items and items[-1][0] is sc.AT and items[-1][1] is sc.AT_END:
        kind = 'dollar'
        items = items[:-1]
    elif items and items[-1][0] is sc.AT and items[-1][1] is sc.AT_END_STRING:
        kind = 'Z'
        items = items[:-1]
    else:
        raise Unsupported("pattern is not anchored at the end: prefix-match semantics not modelled")
    r = seq(items)
    if kind == 'dollar' and dollar_matches_before_newline:
        # CPython: '$' also matches just before a string-final newline
        r = z3.Concat(r, z3.Option(z3.Re("\n")))
    return r


class SymPattern:
    """stands in for a compiled pattern used through .match() truthiness"""

    def __init__(self, real):
        self.real = real
        self.pattern = real.pattern
        self.rx = rx_to_z3(real.pattern)

    def match(self, s):
        s = sym(s)
        if isinstance(s, SymStr):
            return SymBool(z3.InRe(s.e, self.rx))
        return self.real.match(s)


class SymDict(dict):
    """module-level lookup table that can be probed with a SymStr key without enumerating the key"""

    def _find(self, k):
        k = sym(k)
        if isinstance(k, SymStr):
            for key in dict.keys(self):
                r = (k == key)
                if r is not False and bool(r):
                    return key
            return None
        return k if dict.__contains__(self, k) else None

    def __contains__(self, k):
        return self._find(k) is not None

    def get(self, k, d=None):
        f = self._find(k)
        return dict.__getitem__(self, f) if f is not None else d

    def __getitem__(self, k):
        f = self._find(k)
        if f is None:
            raise KeyError(k)
        return dict.__getitem__(self, f)
