"""Environment stubs rebound in the analysed modules (each is part of the claim).

* scipy.interpolate.interp1d  (kinds nearest / zero / previous / linear) over symbolic abscissae
* scipy.sparse.{lil,csr,coo}_matrix  dense SymArray-backed stand-ins
* scipy.stats.entropy, scipy.special.{comb,gammaln}: boundary adapter (concrete data only -> real SciPy)
* warnings.warn: untouched (the harness silences warnings)
"""
import math
import types

import numpy as _np
import scipy as _scipy
import scipy.interpolate
import scipy.sparse
import scipy.special
import scipy.stats

from . import core as S
from .core import _objarr, _wrap, _b_cmp, _b_add, _b_sub, _b_mul, _b_div, is_sym, demote, Unsupported
from . import harness as H


class Interp1d:
    def __init__(self, x, y, kind='linear', axis=-1, copy=True, bounds_error=None, fill_value=_np.nan, assume_sorted=False):
        self.x = _objarr(x).reshape(-1)
        self.y = _objarr(y).reshape(-1)
        if len(self.x) != len(self.y):
            raise ValueError("x and y arrays must be equal in length along interpolation axis.")
        if kind not in ('linear', 'nearest', 'zero', 'previous'):
            raise Unsupported("interp1d kind=%r" % (kind,))
        if len(self.x) < (1 if kind in ('nearest', 'previous') else 2 if kind == 'linear' else 1):
            raise ValueError("x and y arrays must have at least 2 entries")
        self.kind = kind
        if isinstance(fill_value, str):
            raise Unsupported("interp1d extrapolate")
        # SciPy accepts a (below, above) pair
        if isinstance(fill_value, tuple) and len(fill_value) == 2:
            self.fill_below, self.fill_above = fill_value
        else:
            self.fill_below = self.fill_above = fill_value
        self.fill = fill_value
        self.bounds_error = (bounds_error is None and True) or bool(bounds_error)
        if bounds_error is None and not (isinstance(fill_value, float) and math.isnan(fill_value)) and not isinstance(fill_value, tuple):
            self.bounds_error = False
        if not assume_sorted:
            # sort by x (forks on the order); mir_eval passes sorted times
            idx = S._argsort1(self.x)
            self.x = self.x[idx]
            self.y = self.y[idx]

    def __call__(self, xnew):
        xs = _objarr(xnew)
        scalar = xs.ndim == 0
        lt, le, eq = _b_cmp('lt'), _b_cmp('le'), _b_cmp('eq')
        x, y = self.x, self.y
        n = len(x)
        out = []
        for v in xs.reshape(-1):
            below = bool(lt(v, x[0]))
            if below or bool(lt(x[n - 1], v)):
                if self.bounds_error:
                    raise ValueError("A value in x_new is outside the interpolation range.")
                fv = self.fill_below if below else self.fill_above
                out.append(fv if is_sym(fv) else _np.asarray(fv)[()])
                continue
            # largest i with x[i] <= v
            i = 0
            while i + 1 < n and bool(le(x[i + 1], v)):
                i += 1
            if self.kind in ('zero', 'previous'):
                out.append(y[i])
            elif self.kind == 'nearest':
                if i == n - 1:
                    out.append(y[i])
                else:
                    # SciPy rounds half down: the midpoint belongs to the left sample
                    mid2 = _b_add(x[i], x[i + 1])
                    if bool(le(_b_mul(v, 2), mid2)):
                        out.append(y[i])
                    else:
                        out.append(y[i + 1])
            else:
                if i == n - 1 or bool(eq(v, x[i])):
                    out.append(y[i] if is_sym(y[i]) else _np.float64(y[i]))
                else:
                    fr = _b_div(_b_sub(v, x[i]), _b_sub(x[i + 1], x[i]))
                    out.append(_b_add(y[i], _b_mul(_b_sub(y[i + 1], y[i]), fr)))
        r = _np.empty(len(out), dtype=object)
        for k, v in enumerate(out):
            r[k] = v
        if scalar:
            return r[0]
        return _wrap(r.reshape(xs.shape))


# ---------------------------------------------------------------- sparse stand-ins

class DenseMatrix:
    """Dense SymArray-backed stand-in for scipy.sparse matrices (lil/csr/coo) as used by
    mir_eval.hierarchy and mir_eval.segment."""

    def __init__(self, arg, shape=None, dtype=None):
        if isinstance(arg, DenseMatrix):
            self.a = arg.a.copy()
        elif isinstance(arg, tuple) and len(arg) == 2 and all(isinstance(v, (int, _np.integer)) for v in arg):
            self.a = S.NP.zeros(arg, dtype=dtype or float)
        elif isinstance(arg, tuple) and len(arg) == 2:
            # coo format: (data, (row, col))
            data, (row, col) = arg
            data = _objarr(data).reshape(-1)
            row = [S.sym_int(v) for v in _objarr(row).reshape(-1)]
            col = [S.sym_int(v) for v in _objarr(col).reshape(-1)]
            if shape is None:
                shape = (max(row) + 1 if row else 0, max(col) + 1 if col else 0)
            self.a = S.NP.zeros(shape, dtype=dtype or float)
            p = self.a.view(_np.ndarray)
            for d, r, c in zip(data, row, col):
                p[r, c] = _b_add(p[r, c], d)
        else:
            self.a = _objarr(arg).view(S.SymArray).copy()
        self.shape = self.a.shape
        self.dtype = dtype

    def __setitem__(self, key, val):
        self.a[key] = val

    def __getitem__(self, key):
        r = self.a[key]
        if isinstance(r, _np.ndarray):
            if r.ndim == 1:
                r = r.reshape(1, -1) if not isinstance(key, tuple) or isinstance(key[0], (int, _np.integer)) or is_sym(key[0]) else r.reshape(-1, 1)
            return DenseMatrix(r)
        return r

    def tocsr(self):
        return DenseMatrix(self)

    def tolil(self):
        return DenseMatrix(self)

    def tocoo(self):
        return DenseMatrix(self)

    def toarray(self):
        return self.a.copy()

    def todense(self):
        return self.a.copy()

    def astype(self, dt):
        return DenseMatrix(self.a.astype(dt))

    def sum(self, axis=None):
        r = self.a.sum(axis=axis)
        return r

    def max(self):
        return self.a.max()

    @property
    def T(self):
        return DenseMatrix(self.a.T)

    def transpose(self):
        return self.T

    def __concretize__(self, model):
        return H.concretize(self.a, model)


def _boundary(real):
    """call a real SciPy/NumPy routine on fully concrete data (demote -> call -> promote)."""
    def f(*a, **k):
        a2 = [demote(x) if isinstance(x, (S.SymArray, list, tuple)) else (demote(x) if is_sym(x) else x) for x in a]
        k2 = {kk: (demote(v) if isinstance(v, S.SymArray) else v) for kk, v in k.items()}
        with _np.errstate(all='ignore'):
            return S._promote(real(*a2, **k2))
    f.__name__ = getattr(real, '__name__', 'boundary')
    return f


def _ns(**kw):
    return types.SimpleNamespace(**kw)


SCIPY = _ns(
    interpolate=_ns(interp1d=Interp1d),
    sparse=_ns(lil_matrix=DenseMatrix, csr_matrix=DenseMatrix, coo_matrix=DenseMatrix, issparse=lambda x: isinstance(x, DenseMatrix)),
    stats=_ns(entropy=_boundary(scipy.stats.entropy)),
    special=_ns(comb=_boundary(scipy.special.comb), gammaln=_boundary(scipy.special.gammaln)),
    misc=getattr(_scipy, 'misc', None),
)

for _m in ('melody', 'multipitch', 'segment', 'hierarchy'):
    H.EXTRA_PATCHES.setdefault(_m, {})['scipy'] = SCIPY
