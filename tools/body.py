#!/usr/bin/env python3
"""print function bodies of a mir_eval module without docstrings: body.py <module> [func ...]"""
import ast, sys
m = sys.argv[1]; only = set(sys.argv[2:])
src = open('/repo/mir_eval/%s.py' % m).read(); t = ast.parse(src); lines = src.split('\n')
for n in t.body:
    if isinstance(n, ast.FunctionDef) and (not only or n.name in only):
        body = n.body
        hasdoc = isinstance(body[0], ast.Expr) and isinstance(getattr(body[0], 'value', None), ast.Constant) and len(body) > 1
        start = body[1].lineno if hasdoc else body[0].lineno
        print('\n'.join(lines[n.lineno - 1:body[0].lineno - 1]))
        print('\n'.join(l for l in lines[start - 1:n.end_lineno] if l.strip() and not l.strip().startswith('#')))
        print()
