#!/bin/sh
# Hand-written canary mutants: each is applied to /repo with sed, the named check must report a VIOLATION, then /repo is restored.
# usage: tools/canaries.sh            (runs all; prints one line per canary; exit 1 if one is missed)
cd "$(dirname "$0")/.."
git -C /repo diff --quiet || { echo "/repo is dirty"; exit 2; }
miss=0
canary() {
  check=$1; desc=$2; file=$3; expr=$4
  sed -i "$expr" /repo/mir_eval/$file
  if git -C /repo diff --quiet; then echo "CANARY-NOT-APPLIED $check $desc"; miss=1; return; fi
  n=$(timeout 1500 ./check $check --tier quick 2>&1 | grep -c "^VIOLATION")
  git -C /repo checkout -- .
  if [ "$n" -gt 0 ]; then echo "caught  $check  $desc  ($n violation lines)"; else echo "MISSED  $check  $desc"; miss=1; fi
}
canary C05 "_fast_hit_windows side right->left" util.py 's/est + window, side="right"/est + window, side="left"/'
canary C03 "segment.evaluate first detection window 0.5->0.25" segment.py '0,/kwargs\["window"\] = 0.5/s//kwargs["window"] = 0.25/'
canary C03 "beat.evaluate Goto arguments swapped" beat.py 's/goto, reference_beats, estimated_beats, \*\*kwargs/goto, estimated_beats, reference_beats, **kwargs/'
canary C16 "rand_index negative matches not halved" segment.py 's/n_matches_neg = matches_neg.sum() \/ 2.0/n_matches_neg = matches_neg.sum() \/ 1.0/'
canary C17 "_gauc window slice one frame too wide" hierarchy.py 's/results = slice(max(0, query - window), min(n, query + window))/results = slice(max(0, query - window), min(n, query + window + 1))/'
canary C04 "raw_pitch_accuracy < -> <=" melody.py '0,/correct_frequencies = freq_diff_cents < cent_tolerance/s//correct_frequencies = freq_diff_cents <= cent_tolerance/'
canary C04 "cemgil normaliser 0.5 -> 1.0" beat.py 's/accuracy \/= 0.5 \* (estimated_beats.shape\[0\] + reference_beats.shape\[0\])/accuracy \/= 1.0 * (estimated_beats.shape[0] + reference_beats.shape[0])/'
canary C04 "f_measure (1+beta^2) -> (1+beta)" util.py 's/return (1 + beta\*\*2) \* precision \* recall/return (1 + beta) * precision * recall/'
canary C04 "key perfect fifth 7 -> 5" key.py 's/(estimated_key - reference_key) % 12 == 7/(estimated_key - reference_key) % 12 == 5/'
canary C04 "PCS overlap min -> max" alignment.py 's/overlap_ends = np.minimum(ref_ends, est_ends)/overlap_ends = np.maximum(ref_ends, est_ends)/'
canary C11 "majmin vocabulary slice [:8] -> [:7]" chord.py '0,/is_maj = np.all(np.equal(ref_semitones\[:, :8\], maj_semitones), axis=1)/s//is_maj = np.all(np.equal(ref_semitones[:, :7], maj_semitones[:7]), axis=1)/'
canary C13 "interpolate_intervals ends side right->left" util.py 's/ends = np.searchsorted(time_points, intervals\[:, 1\], side="right")/ends = np.searchsorted(time_points, intervals[:, 1], side="left")/'
canary C18 "compute_err_score e_sub min -> max" multipitch.py 's/e_sub = (np.min(\[n_ref, n_est\], axis=0) - true_positives).sum() \/ n_ref_sum/e_sub = (np.max([n_ref, n_est], axis=0) - true_positives).sum() \/ n_ref_sum/'
canary C15 "alignment.absolute_error computes the difference in place" alignment.py '0,/    deviations = np.abs(reference_timestamps - estimated_timestamps)/s//    reference_timestamps -= estimated_timestamps\n    deviations = np.abs(reference_timestamps)/'
canary C01 "util.f_measure without the 0\/0 guard" util.py 's/    if precision == 0 and recall == 0:/    if False:/'
canary C14 "validate_events sortedness check dropped" util.py 's/    if (np.diff(events) < 0).any():/    if False:/'
canary C09 "pitch_class_to_semitone without % 12" chord.py 's/    return semitone % 12$/    return semitone/'
canary C10 "encode: bass_number without % 12" chord.py 's/bass_number = scale_degree_to_semitone(bass) % 12/bass_number = scale_degree_to_semitone(bass)/'
canary C20 "load_delimited splits n_columns instead of n_columns - 1" io.py 's/splitter.split(line.strip(), n_columns - 1)/splitter.split(line.strip(), n_columns)/'
canary C19 "bss_eval_sources permutation by argmin" separation.py '0,/popt = perms\[np.argmax(mean_sir)\]/s//popt = perms[np.argmin(mean_sir)]/'
exit $miss
