#!/usr/bin/env python3
"""Regenerates /verif/MANIFEST.json from the table below (kept valid at all times)."""
import json, os
V = os.path.dirname(os.path.dirname(os.path.abspath(__file__)))
ALL = ["C%02d" % i for i in range(1, 21)]

TECH = "dynamic symbolic execution of the real functions (z3 decides every branch and every obligation per path; sat models replayed on the unpatched code)"

CLAIMED = {
    # id: (level_text, level_note, design_ref)
    "C05": ("Bounded symbolic model checking of the real matchers: for every path (all input values within the stated shapes) the solver "
            "discharges 'pairs satisfy the predicate' and 'no larger one-to-one pairing exists'; counterexamples are replayed on the real code.",
            "Bounds: graphs <=3x3 quick / 4x4 thorough (all edge sets), events <=3x3 / 4x5, notes 2x2 / 3x3 on the 1e-4 s lattice; exact real arithmetic; "
            "trusted: z3, the NumPy proxy (cross-validated against real NumPy on every path witness).", "5 (C05)"),
    "C13": ("Bounded symbolic model checking of the real interval helpers against the labelling-function definition with a universally "
            "quantified instant: every path of adjust_intervals/merge_labeled_intervals/interpolate_intervals/intervals_to_samples/"
            "boundaries<->intervals/sort_labeled_intervals within the shapes is discharged by z3; witnesses replayed on the real code.",
            "Bounds: <=3 (quick) / <=4 (thorough) input intervals incl. gaps, every position of t_min/t_max (also None), <=3/<=5 sample points; "
            "compare-only code so real-arithmetic verdicts transfer to finite floats; adjust_events only for ranges overlapping the events.", "5 (C13)"),
    "C11": ("The 12 real chord comparison functions run on fully symbolic encodings (every root/bitmap/bass/N/X satisfying the encoding "
            "invariant) supplied by an encode_many stub; per path one z3 validity query per requirement (tri-valued result, -1 depends on the "
            "reference only, self-comparison never 0, the ten implications, vocabularies, X ignored). Witnesses become real Harte labels and are replayed.",
            "Unbounded over encodings for the 11 non-mirex rules; mirex with 2 (quick) / 4 (thorough) symbolic bitmap positions per label, windows swept. "
            "Assumes the encoding invariant (established for the real encode() by C10) ; validate/encode_many stubbed.", "5 (C11)"),
    "C18": ("Real multipitch accounting functions on symbolic integer count arrays (unbounded counts), real per-frame matcher on symbolic "
            "frequencies, real resample_multipitch/metrics on symbolic time bases; z3 discharges E_tot=E_sub+E_miss+E_fa, non-negativity, "
            "Acc<=min(P,R), tp<=tc<=min(nref,nest), nearest-frame resampling and empty frames outside the estimate's range on every path.",
            "Bounds: <=3 (quick) / 5 (thorough) frames for accounting, 2x2 / 3x3 frequencies per frame, <=3 time stamps per side; interp1d(nearest) stub "
            "cross-validated against SciPy per path; exact-midpoint ties accepted on either side.", "5 (C18)"),
    "C01": ("Every public metric of the task table executed symbolically through its own validation on symbolic annotations of each listed "
            "shape; per path z3 discharges the range obligation of every returned score (finite, in [0,1]; binary in {0,1}; ARI/AMI/AOR <= 1; "
            "errors >= 0; deviation NaN iff a side has no boundaries). Counterexamples are replayed on the real float64 code; three classes of "
            "genuine out-of-range scores are listed known findings, one was fixed.",
            "Bounds: events <=3x3 / 4x4, notes 2x2 / 3x3 (1e-4 s lattice), frames <=3 / 5, segmentations <=2+2 / 3+2 with label patterns and "
            "<=4 frames, patterns <=2x1 / 2x2, hierarchy 2 levels. exp/log/sqrt uninterpreted with monotonicity+anchor axioms. Out of reach and not "
            "claimed: beat.p_score, beat.information_gain, alignment.karaoke_perceptual_metric, transcription_velocity, separation.", "5 (C01)"),
    "C02": ("Every metric run on (x, copy of x) with x symbolic; z3 shows agreement scores == 1 and errors == 0 on every path under the statement's "
            "non-degeneracy conditions; Goto on 5-6 beats, continuity on 5 beats (thorough); transcription_velocity with the exact least-squares model "
            "(normal equations) for 1-2 symbolic notes and three overlapping notes with a symbolic velocity.",
            "Bounds: 1..3 (quick) / 1..4 (thorough) items; Cemgil assumes beats >= 0.16 s apart; melody with binary voicing; frame-level degeneracy of "
            "segmentations judged after sampling (conventions asserted, 0/0 cases left to C01). P-score/information gain out of reach.", "5 (C02)"),
    "C06": ("Same-path double execution m(a,b), m(b,a) of every symmetric metric; z3 shows P/R exchange and symmetric scores coincide for all inputs on the path.",
            "Bounds as C01; beta=1; the with-offset transcription criterion is asymmetric by definition and excluded, AOR not required to swap.", "5 (C06)"),
    "C07": ("Same-path executions with two symbolic settings t1<=t2 of one tolerance (others shared) and nested-criteria comparisons; z3 shows no score decreases.",
            "Bounds: events <=2x2 (quick) / 3x3+, notes <=1x2 / 2x2, frames <=3 / 5; velocity tolerance not covered (lstsq out of reach).", "5 (C07)"),
    "C14": ("Valid side: all metrics and every evaluate() explored symbolically under the documented conventions, an exception on any feasible path is a "
            "violation (replayed). Invalid side: 117 single-fault corruptions with symbolic fault values must raise ValueError on every path.",
            "Bounds as C01; evaluate() <=2+2 items; p_score/information_gain/karaoke metric stubbed inside evaluate (their internal exceptions are outside the "
            "claim); key/chord strings handled by C10; three empty-reference evaluate() failures are listed known findings, one IndexError was fixed.", "5 (C14)"),
    "C15": ("After each symbolically executed call every cell of every argument is compared with its pre-call term by z3 (in-place writes leave ite terms), "
            "containers structurally; the call is repeated on the same path and results must be equal terms; np.empty yields fresh unknowns.",
            "Bounds as C01/C14; covers task metrics, evaluate(), adjust_intervals/adjust_events/merge_labeled_intervals, freq_to_voicing; sonify and separation "
            "numerics outside; two genuine mutations were fixed.", "5 (C15)"),
    "C08": ("Same-path executions of the real metric on x and on its transformed copy (times + symbolic delta; permuted notes / frame frequencies / estimated "
            "tempi / reference pattern list; label bijections per annotation); z3 shows the scores equal for all inputs on the path.",
            "Bounds as C01 (<=2x2 for shifts in quick); beat.evaluate with beats >= 5 s; segment/hierarchy time shift not in the statement; P-score out of reach. "
            "One genuine origin dependence (multipitch np.allclose relative tolerance) is a listed known finding.", "5 (C08)"),
    "C03": ("Routing mode: all metric functions replaced by uninterpreted records with the original signatures, so evaluate()'s body, pre-processing and "
            "filter_kwargs are the code analysed; every entry must equal the record of the documented direct call (key list, forced parameters, user "
            "keywords incl. an unrelated one) with argument cells compared by z3. Semantic mode: real metrics on both sides, entries compared as terms, "
            "values must be real scalars also for empty annotations.",
            "Bounds: <=2+2 items routing, <=2+1 semantic (quick); all tasks except separation; documented key lists/forced parameters transcribed into the "
            "harness; p_score/information_gain/karaoke metric stubbed in semantic mode. Two genuine defects fixed (thres spelling, tuple returns).", "5 (C03)"),
    "C10": ("Layer 1: live CHORD_RE translated from its sre parse tree into a z3 regex and compared with the documented Harte grammar, both inclusions "
            "decided by z3 for strings of unbounded length. Layer 2: an arbitrary symbolic string of length <= L through the real validate/split/join/"
            "encode(all flags)/encode_many: only InvalidChordException, encoding invariant, sentinels, split/join round trip, strict-bass behaviour. "
            "Layer 3: every accepted label re-encoded by an independent table-driven reference encoder (plus a 121-label concrete pool).",
            "Bounds: L <= 3 quick / <= 5 thorough over code points 9..126 (layer 1 unbounded); regex membership and table look-ups are solver atoms; "
            "layer 3 is solver-driven enumeration of the accepted labels. One genuine defect fixed ('$' anchor).", "5 (C10)"),
    "C09": ("Chord rules on fully symbolic encodings with roots jointly transposed by a symbolic k; real pitch_class_to_semitone on symbolic root strings; "
            "chord.evaluate with symbolic times on a transposed/respelled label pool; key scores over key pairs x 12 transpositions x spellings; log-domain "
            "frequencies scaled by a symbolic factor (melody, multipitch, transcription), estimate-only octave shifts and negated melody estimates: all "
            "compared on the same path and discharged by z3.",
            "Bounds: encodings unbounded (mirex 2 symbolic bits/label), root strings <=4/5 chars, <=2+2 chord intervals, 8x8 key pairs quick / all 49x49 thorough, "
            "<=2/3 frames, notes <=1x2 / 2x2; scaling keeps 20..5000 Hz; encode_many stubbed to the invariant for the rule lattice.", "5 (C09)"),
    "C16": ("pairwise/rand_index/ari/mutual_information/nce/vmeasure run end to end on symbolic boundaries; per path (region of boundary space) z3 "
            "proves every frame carries the label of the interval containing k*frame_size, then the returned numbers are compared with independent "
            "textbook formulas (exact fractions + math.log) on the contingency table, plus the identities vmeasure==nce(marginal), MI symmetry, "
            "V harmonic mean, ARI=1 for coinciding partitions.",
            "Bounds: <=2+2 segments / <=4 frames quick, <=3+3 / <=8 frames thorough; frame sizes 0.5/0.25/0.1; beta symbolic on one configuration; 1e-5 s "
            "boundary lattice. NMI/AMI not asserted where the textbook value is 0/0. After the frame obligation the indices are concrete per path.", "5 (C16)"),
    "C17": ("Fully symbolic kernels (_compare_frame_rankings, _count_inversions on integer vectors; _gauc on symbolic LCA matrices) against the double-sum / "
            "mean-over-queries definitions, and tmeasure/lmeasure end to end on symbolic boundaries against a brute-force triple count over the definitional "
            "frame->segment map; range [0,1]; frame_size<=0 or >window rejected for all symbolic values.",
            "Bounds: vectors n<=3 (levels 0..2) quick / n<=4 (0..3) thorough; _gauc <=3/4 frames; end to end 2 levels x <=2(3) segments, <=4 frames; exact-arithmetic "
            "_round (float truncation gap outside the claim); scipy.sparse dense stand-in.", "5 (C17)"),
    "C12": ("weighted_accuracy on symbolic comparisons/weights (definition, symbolic rescaling, all-1/all-0) and same-path refinement checks: an annotation "
            "and its copy with one interval cut at a symbolic interior instant scored by the real chord.evaluate (15 entries), six segment metrics and "
            "hierarchy.lmeasure; z3 shows equal results on every path.",
            "Bounds: n<=3/4 weights; <=2+2 chord intervals over a 7-label pool; <=2+2 (3+2) segments at frame 0.5, span<=2 s; hierarchy 2 levels.", "5 (C12)"),
    "C19": ("PARTIAL SCOPE - orchestration only: with the numerical core stubbed by arbitrary symbolic values, z3 shows the four BSS components sum to the "
            "padded estimate for every projection, the returned perm is a permutation maximising mean SIR (identity without compute_permutation) with outputs "
            "equal to the selected criteria and independent of np.empty contents, and the framewise variants hand the right slices to the per-window "
            "function with the caller's compute_permutation flag (also in the single-window fall-back), copy its results, put NaN in every metric of silent windows "
            "and return the documented arity for empty input. Not stubbed: the real _safe_db on symbolic energies and the real _bss_source_crit "
            "on symbolic components (a ratio is +inf exactly when its error component is zero, also after a common positive factor).",
            "NOT covered (not applicable to SMT encoding, see DESIGN 6): scale invariance of SDR/SIR/SAR, perfect estimate => identity permutation with very high "
            "SDR, framewise == non-framewise values - these depend on 512-tap FFT/Toeplitz float64 numerics. Bounds: nsrc<=3, flen=2, nsampl<=3; framewise 2 sources, "
            "<=8 samples; criteria vectors of length 1. Two genuine defects fixed.", "5 (C19), 6"),
    "C20": ("PARTIAL SCOPE - tokenisation and post-parse contract: the real load_delimited on a line assembled from symbolic string pieces (fields, whitespace / "
            "custom delimiters, label with interior whitespace, comment marker) through a symbolic model of its `re` calls: z3 shows the columns are exactly the "
            "written fields, comment lines vanish, wrong column counts / unparsable numbers raise ValueError, file order is kept; the same for one row of "
            "load_ragged_time_series (time stamp + 0-2 values) and for load_patterns files with a concrete header structure and symbolic note tokens; loaders on arbitrary parsed "
            "columns return values in file order, only warn on convention violations, and reject tempo weight outside [0,1] and multi-line key/tempo files.",
            "NOT covered (see DESIGN 6): bit-identical float round trip (float() is an injective uninterpreted token), path vs. file object, row numbers in messages, "
            "labels outside code points 9..126, load_wav. Bounds: pieces <=2/3 chars, label <=3/5, 1-2 lines, <=2/3 parsed rows.", "5 (C20), 6"),
    "C04": ("Differential check of the real functions against independently written specification terms over the same symbolic inputs: hit-based P/R/F "
            "from the definition 'k = size of a maximum one-to-one matching under the tolerance predicate' (existence and maximality as Boolean selection "
            "queries), Cemgil with uninterpreted exp (congruence), melody VR/VFA/RPA/RCA/OA closed forms, tempo P-score/flags, key relation table over key "
            "pairs, alignment statistics/PCS, boundary deviation as a median of nearest distances, pattern establishment/occurrence/three-layer scores "
            "re-implemented from Collins with symbolic note equality.",
            "Bounds: events <=3x2 quick / 4x3, notes <=2x2 / 3x3 (1e-4 s lattice), frames <=2 / 3, 10x10 keys quick / all pairs thorough, patterns <=2x1 / 2x2. "
            "Outside the claim: Goto, continuity (Davies) definitions, P-score, information gain, perturbed repository fixtures.", "5 (C04)"),
}

NA_REASON = "check not built yet in this revision (planned; see DESIGN.md section 5)"

def main():
    checks = []
    for pid in ALL:
        if pid not in CLAIMED:
            continue
        text, note, ref = CLAIMED[pid]
        checks.append(dict(
            property_id=pid,
            quick_cmd="./check %s --tier quick" % pid,
            thorough_cmd="./check %s --tier thorough" % pid,
            evidence_file="/verif/evidence/%s.json" % pid,
            replay_cmd_template="./check %s --replay {path}" % pid,
            engine="symx",
            level_claimed=dict(category="model_checking", text=text, design_ref=ref),
            level_note=note,
            technique=TECH,
        ))
    na_path = os.path.join(V, 'tools', 'not_applicable.json')
    na_reasons = json.load(open(na_path)) if os.path.exists(na_path) else {}
    na = [dict(property_id=p, reason=na_reasons.get(p, NA_REASON)) for p in ALL if p not in CLAIMED]
    man = dict(
        version=1,
        setup_cmd="./setup.sh",
        hooks=dict(guard="MIR_EVAL_VERIF", enable="no source hooks are needed: ./check rebinds module globals (np, builtins, scipy stubs) of the imported mir_eval modules at run time; MIR_EVAL_VERIF=1 is exported for completeness",
                   baseline_off_cmd="cd /repo && /venv/bin/python -m pytest -ra -q -p no:cacheprovider --timeout=900 --continue-on-collection-errors",
                   source_commits=[], add_only=True),
        engines=[dict(name="symx", path="/verif/symx", serves_properties=sorted(CLAIMED),
                      kind_free_text="concolic/dynamic symbolic execution of the real mir_eval Python functions over z3-backed NumPy object arrays; per-path SMT obligations; replay and per-path cross-validation on the unpatched float64 code")],
        checks=checks,
        notes="Exit codes: 0 held / only listed known findings; 1 + VIOLATION line = reproduced violation; 2 = inconclusive (unsupported operation, solver unknown, cross-validation mismatch). Known findings: /verif/known_findings.json.",
        not_applicable=na,
    )
    with open(os.path.join(V, 'MANIFEST.json'), 'w') as f:
        json.dump(man, f, indent=1)
    print("MANIFEST.json: %d checks, %d not applicable" % (len(checks), len(na)))

if __name__ == '__main__':
    main()
