"""Which optional parameters of mir_eval's public functions do the quick-tier jobs ever pass with a non-default value?
Runs the first path of every job with recording wrappers around the public functions and prints, per function, the optional
parameters never seen with a non-default (or symbolic) value.  A reading aid for finding configurations no job exercises;
not part of any check.   usage: tools/param_coverage.py [tier] [C01 C02 ...]"""
import importlib, inspect, sys, time, collections, functools, warnings
sys.path.insert(0, '/verif')
warnings.simplefilter('ignore')
from symx import core as S, harness as H

MODS = ['beat', 'onset', 'segment', 'hierarchy', 'chord', 'melody', 'multipitch', 'transcription', 'transcription_velocity', 'tempo', 'key',
        'pattern', 'alignment', 'util', 'io', 'separation']
seen = collections.defaultdict(set)      # 'mod.fn' -> params seen non-default
calls = collections.Counter()
sigs = {}


def wrap(qual, fn):
    f0 = getattr(fn, '__wrapped__', fn)
    try:
        sig = inspect.signature(f0)
    except Exception:
        return fn
    opt = {p.name: p.default for p in sig.parameters.values() if p.default is not p.empty}
    sigs[qual] = opt

    @functools.wraps(fn)
    def w(*a, **k):
        calls[qual] += 1
        try:
            b = sig.bind_partial(*a, **k)
            for nm, v in b.arguments.items():
                if nm in opt:
                    d = opt[nm]
                    same = (v is d)
                    if not same:
                        try:
                            same = (not S.is_sym(v)) and type(v) == type(d) and bool(v == d)
                        except Exception:
                            same = False
                    if not same:
                        seen[qual].add(nm)
        except TypeError:
            pass
        return fn(*a, **k)
    return w


for m in MODS:
    mod = importlib.import_module('mir_eval.' + m)
    for name, fn in list(vars(mod).items()):
        if inspect.isfunction(fn) and fn.__module__ == mod.__name__ and not name.startswith('_'):
            setattr(mod, name, wrap(m + '.' + name, fn))

tier = sys.argv[1] if len(sys.argv) > 1 else 'quick'
props = sys.argv[2:] or ['C%02d' % i for i in range(1, 21)]
t0 = time.time()
for pid in props:
    mod = importlib.import_module('props.%s' % pid.lower())
    for job in mod.jobs(tier):
        try:
            H.Runner(job).run(deadline=time.time() + 0.2)
        except BaseException as ex:
            pass
print('# %d functions called, %.0f s' % (len(calls), time.time() - t0))
for qual in sorted(sigs):
    if not sigs[qual]:
        continue
    never = sorted(set(sigs[qual]) - seen[qual])
    if calls[qual] == 0:
        print('%-55s NEVER CALLED  (optional: %s)' % (qual, ', '.join(sorted(sigs[qual]))))
    elif never:
        print('%-55s calls=%-6d never non-default: %s' % (qual, calls[qual], ', '.join(never)))
