"""profile fork sites of one job: tools/profile_job.py C14 'regex' [seconds]"""
import sys, time, collections, importlib, re, traceback
sys.path.insert(0, '/verif')
from symx import core as S, harness as H
pid, pat = sys.argv[1], sys.argv[2]
secs = float(sys.argv[3]) if len(sys.argv) > 3 else 30
mod = importlib.import_module('props.%s' % pid.lower())
job = [j for j in mod.jobs(sys.argv[4] if len(sys.argv) > 4 else 'quick') if re.search(pat, j.name)][0]
print(job.name)
sites = collections.Counter()
orig = S.Ctx.decide
def decide(self, e):
    before = self.forked
    r = orig(self, e)
    if self.forked > before:
        for fr in traceback.extract_stack()[::-1]:
            if '/repo/mir_eval' in fr.filename or '/verif/props' in fr.filename:
                sites['%s:%d %s' % (fr.filename.split('/')[-1], fr.lineno, fr.line[:70])] += 1
                break
    return r
S.Ctx.decide = decide
r = H.Runner(job)
res = r.run(deadline=time.time() + secs)
print('paths', res.paths, 'complete', res.complete, 'exc', res.exc_paths, res.exc_msgs[:3], 'unsup', res.unsupported[:2], 'sat', res.sat, 'errors', res.errors[:2])
for k, v in sites.most_common(25):
    print(v, k)
