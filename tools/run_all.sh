#!/bin/sh
# run every check at the given tier, one after the other; prints one summary line per property
tier=${1:-quick}
cd "$(dirname "$0")/.."
for i in 01 02 03 04 05 06 07 08 09 10 11 12 13 14 15 16 17 18 19 20; do
  s=$(date +%s)
  ./check C$i --tier $tier > /tmp/run_all_C$i.log 2>&1
  rc=$?
  e=$(date +%s)
  echo "C$i rc=$rc $((e-s))s $(grep "^C$i $tier" /tmp/run_all_C$i.log | cut -c1-200)"
  grep "^INCONCLUSIVE\|^VIOLATION" /tmp/run_all_C$i.log | cut -c1-220 | head -5
done
