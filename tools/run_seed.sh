#!/bin/sh
# apply a seeded change to /repo, run the given checks (quick tier), revert.  tools/run_seed.sh <seed dir> <Cxx> [<Cyy> ...]
d=$1; shift
git -C /repo diff --quiet || { echo "/repo is dirty"; exit 2; }
git -C /repo apply "$(cd "$d" && pwd)/patch.diff" || exit 2
for c in "$@"; do
  out=$(timeout 1500 ./check $c --tier quick 2>&1); rc=$?
  nv=$(echo "$out" | grep -c "^VIOLATION")
  sites=$(echo "$out" | grep "site=" | sed 's/.*site=\([^ ]*\).*/\1/' | sort | uniq | head -4 | tr '\n' ' ')
  echo "$(basename $d) $c rc=$rc violations=$nv $sites"
done
git -C /repo checkout -- .
