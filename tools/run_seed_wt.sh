#!/bin/sh
# like run_seed.sh but leaves /repo alone: the seeded change is applied to a scratch worktree that is put first on PYTHONPATH
# (usable while other checks analyse /repo).  tools/run_seed_wt.sh <seed dir> <Cxx> [<Cyy> ...]    (VERIF_WORKERS limits the pool)
d=$1; shift
wt=/tmp/seedwt_$(basename $d)
git -C /repo worktree remove --force $wt 2>/dev/null
git -C /repo worktree add -q $wt HEAD || exit 2
git -C $wt apply "$(cd "$d" && pwd)/patch.diff" || exit 2
for c in "$@"; do
  out=$(PYTHONPATH=$wt timeout 1500 ./check $c --tier quick 2>&1); rc=$?
  nv=$(echo "$out" | grep -c "^VIOLATION")
  sites=$(echo "$out" | grep "site=" | sed 's/.*site=\([^ ]*\).*/\1/' | sort | uniq | head -4 | tr '\n' ' ')
  echo "$(basename $d) $c rc=$rc violations=$nv $sites"
done
git -C /repo worktree remove --force $wt
