#!/bin/sh
# verify a seeded change independently: tools/verify_seed.sh <srcdir with patch.diff demo.py meta.json> <name>
# (scratch worktree outside /repo and /verif, removed afterwards)
src=$1; name=$2
wt=/tmp/vs_$name
git -C /repo worktree remove --force $wt 2>/dev/null
git -C /repo worktree add -q $wt HEAD || exit 2
cd $wt
PYTHONPATH=$wt /venv/bin/python $src/demo.py > /tmp/vs_$name.clean.out 2>&1; c=$?
git apply $src/patch.diff || { echo "patch does not apply"; exit 2; }
PYTHONPATH=$wt /venv/bin/python $src/demo.py > /tmp/vs_$name.patched.out 2>&1; p=$?
/venv/bin/python -m pytest -q -p no:cacheprovider --timeout=900 --continue-on-collection-errors -rA 2>/dev/null | grep "^PASSED\|^XPASS" | sed 's/^[A-Z]* //; s/ - .*//' | sort > /tmp/vs_$name.tests
n=$(wc -l < /tmp/vs_$name.tests)
cd /; git -C /repo worktree remove --force $wt
echo "$name: demo clean exit=$c patched exit=$p; passing tests with patch=$n (baseline 66)"
